#!/usr/bin/env python3
"""Regenerates /verif/MANIFEST.json from the table below. Run after adding/removing a check."""
import json, os, sys

ROOT = os.path.dirname(os.path.abspath(__file__))
ENV = "GOFLAGS=-mod=mod GOPROXY=off GOSUMDB=off GOTOOLCHAIN=local GOWORK=off"

# technique per property (the explanation / assumptions come from the checker itself: bin/nplint -list)
TECH = {
    "C01": "guard facts (no mutation before the length check), must-precede of the accounting primitive, who-may-write table for the length, must-pass-through on MallocAck with relational path facts",
    "C02": "escape analysis of node memory within the Reader methods + must-precede of the exposure mark, who-may-free table, field-sensitive block-sharing rule, reference-count shape facts",
    "C03": "who-may-call tables for the pool primitives, ownership guard facts in node.Release, value-origin query for caller memory / cached blocks, constant-agreement fact malloc vs free",
    "C04": "value plumbing of syscall counts into Ack callbacks (same-SSA-value rule), must-follow of Ack after every I/O call, single-producer who-may-call table, borrowed hand-off / drain rules of C08, C10, C11",
    "C16": "must-pass-through (ack and flush after every source read incl. error exits), same-value plumbing of read/accepted counts, guard facts, error mapping fact",
    "C05": "typestate over CAS key-locks, must-pass-through and guard-fact queries on go/ssa, bottom-up may/must effect summaries, who-may-call tables",
    "C06": "typestate (processing lock) + unlock->re-read->relock hand-off as must-pass-through queries; publish-before-try dominance",
    "C07": "publish-then-check dominance, guard facts on the closing state, select/timer case edges, error-constant per branch, nil-guard facts",
    "C08": "typestate (flushing lock), guard facts on buffer emptiness, value plumbing of the sendmsg count, timer hygiene paths",
    "C09": "who-may-call tables, CAS guard facts, unlock(connecting)->re-read->help hand-off, must-precede queries",
    "C10": "token pairing (exactly-one release per path) on the poller dispatch function, field-access-under-token guard facts, who-may-call tables, per-site ownership justification",
    "C11": "per-path dispatch rules on the epoll/kqueue dispatch function: reasoned hang-up verdicts, readall-before-hup under assumed event flags, ack count plumbing, close-message path",
    "C12": "sibling rule over the Writer method set (guard + error constant), reader guard facts, type-level facts on (*exception).Is/Timeout",
    "C13": "track-then-recheck must-pass-through, LIFO registration order, guard facts on Shutdown returns and the idle predicate",
    "C14": "acquire/release pairing on error exits (descriptor, poller slot), ctx-branch must-pass-through, type-level fact: deadline error has Timeout()",
    "C17": "worker hand-off (release -> re-read -> restart) as must-pass-through, spin-lock pairing and guarded-by, guard facts on Close/Add",
    "C18": "CAS guard facts on the lazy-init state machine, must-pass-through on Run's open/start/store/rebalance steps",
    "C19": "atomic-discipline census with frozen exemption table, guarded-by lookups, sibling shape check of the race-build overrides (-tags race configuration)",
    "C15": "close(2) call-site census (who-may-call), field-sensitive borrowed-descriptor rule, once-guard facts, error-exit pairing",
}
NOTE = "trusted: go/types+go/ssa (x/tools v0.29.0) model of the source, linearizable sync/atomic, role tables in /verif/checker; decides structural necessary conditions only - see level_claimed.text for what is not decided"

def claimed():
    import subprocess
    out = subprocess.check_output([os.path.join(ROOT, "bin/nplint"), "-list"])
    res = {}
    for p in json.loads(out):
        if p["id"] in TECH:
            res[p["id"]] = (TECH[p["id"]], p["explain"], NOTE + "; assumes: " + "; ".join(p["assume"]), "DESIGN.md §4 " + p["id"])
    return res

CLAIMED = None

NOT_YET = "static check not built yet in this round (work in progress); see DESIGN.md §4 for the planned obligations"
NA = {}

def main():
    global CLAIMED
    CLAIMED = claimed()
    props = [json.loads(l) for l in open(os.path.join(ROOT, "properties.jsonl"))]
    checks, na = [], []
    for p in props:
        pid = p["id"]
        if pid in CLAIMED:
            tech, text, note, ref = CLAIMED[pid]
            checks.append({
                "property_id": pid,
                "quick_cmd": f"bin/nplint -prop {pid} -tier quick",
                "thorough_cmd": f"bin/nplint -prop {pid} -tier thorough",
                "evidence_file": f"/verif/evidence/{pid}.json",
                "replay_cmd_template": f"bin/nplint -prop {pid} -tier thorough -only <obligation-key-from-{{path}}>",
                "engine": "nplint",
                "level_claimed": {"category": "other", "text": text, "design_ref": ref},
                "level_note": note,
                "technique": "static analysis: " + tech,
            })
        else:
            na.append({"property_id": pid, "reason": NA.get(pid, NOT_YET)})
    m = {
        "version": 1,
        "setup_cmd": f"cd /verif/checker && env {ENV} go build -o /verif/bin/nplint .",
        "hooks": {
            "guard": "verif",
            "enable": "none: the checks are static and need no instrumentation of /repo; no hook commits exist",
            "baseline_off_cmd": "cd /repo && env GOFLAGS=-mod=mod GOPROXY=off GOSUMDB=off GOTOOLCHAIN=local go test -vet=off -count=1 -timeout 25m ./...",
            "source_commits": [],
            "add_only": True,
        },
        "engines": [{
            "name": "nplint",
            "path": "/verif/checker",
            "serves_properties": sorted(CLAIMED),
            "kind_free_text": "repository-specific static analyser (go/packages + go/types + go/ssa, x/tools v0.29.0): phi-aware path search with path facts, guard facts, typestate, bottom-up may/must effect summaries, who-may-call tables; reloads and re-analyses /repo's working tree on every run",
        }],
        "checks": checks,
        "not_applicable": na,
        "notes": "All claims are at level 'other': structural necessary conditions of each property decided exactly from the source (see DESIGN.md §4/§5 for what is and is not decided). exit 2 + 'BROKEN:' means the checker could not decide (load error, lost anchor), never a violation. Fixed defects and open known findings: /verif/known_findings.json.",
    }
    json.dump(m, open(os.path.join(ROOT, "MANIFEST.json"), "w"), indent=1)
    print("claimed", len(checks), "not_applicable", len(na))

if __name__ == "__main__":
    main()
