#!/usr/bin/env python3
"""Regenerates /verif/MANIFEST.json from the table below. Run after adding/removing a check."""
import json, os, sys

ROOT = os.path.dirname(os.path.abspath(__file__))
ENV = "GOFLAGS=-mod=mod GOPROXY=off GOSUMDB=off GOTOOLCHAIN=local GOWORK=off"

# id -> (technique, what a pass means, what is assumed / not decided, design section)
CLAIMED = {
    "C05": ("typestate over CAS key-locks + must-pass-through / who-may-call queries on go/ssa with bottom-up effect summaries",
            "Decides, on every path of the teardown functions, the premises of the exactly-once argument: callback runner only under the processing lock, closer never unlocks, closed-before-callbacks, closing monotone, LIFO walk, close/detach/free once-guards, unlock->re-read->help hand-off, finalizer order. A pass means the protocol shapes are present on all paths; it does not prove the behavioural statement under all schedules.",
            "sync/atomic is linearizable; user callbacks panic only inside the callback call; role table in checker/roles.go; descriptor identity and re-entrant callbacks not decided",
            "DESIGN.md §4 C05"),
}

NOT_YET = "static check not built yet in this round (work in progress); see DESIGN.md §4 for the planned obligations"
NA = {}

def main():
    props = [json.loads(l) for l in open(os.path.join(ROOT, "properties.jsonl"))]
    checks, na = [], []
    for p in props:
        pid = p["id"]
        if pid in CLAIMED:
            tech, text, note, ref = CLAIMED[pid]
            checks.append({
                "property_id": pid,
                "quick_cmd": f"bin/nplint -prop {pid} -tier quick",
                "thorough_cmd": f"bin/nplint -prop {pid} -tier thorough",
                "evidence_file": f"/verif/evidence/{pid}.json",
                "replay_cmd_template": f"bin/nplint -prop {pid} -tier thorough -only <obligation-key-from-{{path}}>",
                "engine": "nplint",
                "level_claimed": {"category": "other", "text": text, "design_ref": ref},
                "level_note": note,
                "technique": "static analysis: " + tech,
            })
        else:
            na.append({"property_id": pid, "reason": NA.get(pid, NOT_YET)})
    m = {
        "version": 1,
        "setup_cmd": f"cd /verif/checker && env {ENV} go build -o /verif/bin/nplint .",
        "hooks": {
            "guard": "verif",
            "enable": "none: the checks are static and need no instrumentation of /repo; no hook commits exist",
            "baseline_off_cmd": "cd /repo && env GOFLAGS=-mod=mod GOPROXY=off GOSUMDB=off GOTOOLCHAIN=local go test -vet=off -count=1 -timeout 25m ./...",
            "source_commits": [],
            "add_only": True,
        },
        "engines": [{
            "name": "nplint",
            "path": "/verif/checker",
            "serves_properties": sorted(CLAIMED),
            "kind_free_text": "repository-specific static analyser (go/packages + go/types + go/ssa, x/tools v0.29.0): phi-aware path search with path facts, guard facts, typestate, bottom-up may/must effect summaries, who-may-call tables; reloads and re-analyses /repo's working tree on every run",
        }],
        "checks": checks,
        "not_applicable": na,
        "notes": "All claims are at level 'other': structural necessary conditions of each property decided exactly from the source (see DESIGN.md §4/§5 for what is and is not decided). exit 2 + 'BROKEN:' means the checker could not decide (load error, lost anchor), never a violation. Fixed defects and open known findings: /verif/known_findings.json.",
    }
    json.dump(m, open(os.path.join(ROOT, "MANIFEST.json"), "w"), indent=1)
    print("claimed", len(checks), "not_applicable", len(na))

if __name__ == "__main__":
    main()
