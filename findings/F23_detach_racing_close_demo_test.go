package netpoll

// (copy next to the library sources to run; fails before the fix commit, passes after)

import (
	"runtime"
	"sync"
	"syscall"
	"testing"
	"time"
)

// F23: Detach() and Close() from two goroutines. The loser of closeBy(user) takes onClose's "closed by poller, already
// detached" branch although the connection was closed by the other *user* call; if it wins the processing lock it runs the
// callbacks without PollDetach: the detached descriptor stays registered in epoll on a slot that is freed and recycled.
// (written by the round-4 C05 sub-agent as a side observation; probabilistic: ~1 hit in 2000 rounds)
func TestF23DetachRacingClose(t *testing.T) {
	deadline := time.Now().Add(15 * time.Second)
	rounds, leaked, leakedClose := 0, 0, 0
	for time.Now().Before(deadline) {
		r, w := GetSysFdPairs()
		conn, err := NewFDConnection(r)
		if err != nil {
			t.Fatal(err)
		}
		c := conn.(*connection)
		p := c.operator.poll.(*defaultPoll)
		var wg sync.WaitGroup
		start := make(chan struct{})
		wg.Add(2)
		go func() { defer wg.Done(); <-start; c.Detach() }()
		go func() { defer wg.Done(); <-start; runtime.Gosched(); c.Close() }()
		close(start)
		wg.Wait()
		// fd r is detached: must be open and must NOT be registered in epoll any more
		var evt epollevent
		err = EpollCtl(p.fd, syscall.EPOLL_CTL_DEL, r, &evt)
		if err == nil {
			leaked++
		}
		syscall.Close(r)
		syscall.Close(w)
		rounds++
	}
	t.Logf("rounds=%d still-registered-after-detach=%d %d", rounds, leaked, leakedClose)
	if leaked > 0 {
		t.Fatalf("the detached descriptor was still registered in epoll in %d of %d rounds", leaked, rounds)
	}
}
