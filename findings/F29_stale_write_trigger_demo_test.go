//go:build linux
// +build linux

package netpoll

import (
	"errors"
	"sync/atomic"
	"syscall"
	"testing"
	"time"
)

// F29 (side observation + test of the round-5 C08 sub-agent; fails before the fix commit, passes after): a flush that gives up on its timeout
// checks the trigger once and then removes the write interest. If the poller finishes the buffer
// between these two steps, its completion signal stays in the one-slot trigger and completes the
// next blocking Flush at once, with its data unsent.
//
// The flusher is held between the two steps by a Poll wrapper that makes the first PollRW2R slow
// (the schedule "flusher descheduled before epoll_ctl"); no library code is changed.
type sideSlowPoll struct {
	Poll
	first int32
	delay time.Duration
}

func (p *sideSlowPoll) Control(op *FDOperator, event PollEvent) error {
	if event == PollRW2R && atomic.AddInt32(&p.first, 1) == 1 {
		time.Sleep(p.delay)
	}
	return p.Poll.Control(op, event)
}

func TestF29StaleWriteTrigger(t *testing.T) {
	const small, big = 64 << 10, 1 << 20

	r, w := GetSysFdPairs()
	defer syscall.Close(r)
	syscall.SetsockoptInt(w, syscall.SOL_SOCKET, syscall.SO_SNDBUF, 8192)
	syscall.SetNonblock(r, true)

	wconn := &connection{}
	if err := wconn.init(&netFD{fd: w}, nil); err != nil {
		t.Fatal(err)
	}
	defer wconn.Close()
	wconn.operator.poll = &sideSlowPoll{Poll: wconn.operator.poll, delay: 400 * time.Millisecond}

	var enabled, stop int32
	var got int64
	done := make(chan struct{})
	go func() {
		defer close(done)
		p := make([]byte, 64<<10)
		for atomic.LoadInt32(&stop) == 0 {
			if atomic.LoadInt32(&enabled) == 0 {
				time.Sleep(200 * time.Microsecond)
				continue
			}
			n, _ := syscall.Read(r, p)
			if n > 0 {
				atomic.AddInt64(&got, int64(n))
				continue
			}
			time.Sleep(200 * time.Microsecond)
		}
	}()
	defer func() {
		atomic.StoreInt32(&stop, 1)
		<-done
	}()

	// 1. the flush times out at 100ms; the peer starts reading at 200ms, while the flusher is on
	// its way to remove the write interest
	time.AfterFunc(200*time.Millisecond, func() { atomic.StoreInt32(&enabled, 1) })
	wconn.SetWriteTimeout(100 * time.Millisecond)
	if _, err := wconn.Malloc(small); err != nil {
		t.Fatal(err)
	}
	err := wconn.Flush()
	t.Logf("first Flush: %v, unsent %d, peer received %d of %d", err, wconn.outputBuffer.Len(), atomic.LoadInt64(&got), small)
	if !errors.Is(err, ErrWriteTimeout) {
		t.Fatalf("first Flush: want ErrWriteTimeout, got %v", err)
	}
	time.Sleep(100 * time.Millisecond)

	// 2. the peer stops reading: the next big flush cannot complete
	atomic.StoreInt32(&enabled, 0)
	time.Sleep(10 * time.Millisecond)
	wconn.SetWriteTimeout(300 * time.Millisecond)
	if _, err = wconn.Malloc(big); err != nil {
		t.Fatal(err)
	}
	t0 := time.Now()
	err = wconn.Flush()
	if err == nil {
		t.Fatalf("Flush returned nil after %v, but %d bytes were not taken by the kernel (peer is not reading)",
			time.Since(t0), wconn.outputBuffer.Len())
	}
	if !errors.Is(err, ErrWriteTimeout) {
		t.Fatalf("want ErrWriteTimeout, got %v", err)
	}
}
