//go:build !windows
// +build !windows

package netpoll

import (
	"context"
	"sync/atomic"
	"syscall"
	"testing"
	"time"
)

// F28 (side observation of the round-4 C06 sub-agent; fails before the fix commit, passes after): the OnConnect task captures the OnRequest handler
// when it is created (connection.onConnect). If the handler is installed by the OnConnect
// callback itself (event loop created with a nil OnRequest, per-connection SetOnRequest in
// OnConnect), input that arrives while OnConnect runs is stranded: SetOnRequest's kick fails on
// the processing lock (held by the OnConnect task), the task works with the nil handler it
// captured, and later deliveries never start a task because the buffer is not empty.
func TestF28SetOnRequestInsideOnConnect(t *testing.T) {
	r, w := GetSysFdPairs()
	defer syscall.Close(w)

	var handled int32
	handler := func(ctx context.Context, conn Connection) error {
		n := conn.Reader().Len()
		conn.Reader().Skip(n)
		conn.Reader().Release()
		atomic.AddInt32(&handled, int32(n))
		return nil
	}
	opts := &options{
		onConnect: func(ctx context.Context, conn Connection) context.Context {
			conn.SetOnRequest(handler)
			for i := 0; i < 2000 && conn.Reader().Len() == 0; i++ { // the peer's first request arrives meanwhile
				time.Sleep(time.Millisecond)
			}
			return ctx
		},
	}
	c := new(connection)
	if err := c.init(&netFD{fd: r}, opts); err != nil {
		t.Fatal(err)
	}
	c.onConnect()
	syscall.Write(w, []byte("hello"))
	time.Sleep(500 * time.Millisecond)
	syscall.Write(w, []byte("world"))
	time.Sleep(500 * time.Millisecond)
	if got, left := atomic.LoadInt32(&handled), c.Reader().Len(); got != 10 {
		t.Fatalf("handled %d of 10 bytes; %d bytes buffered, handler installed, connection open, no OnRequest running", got, left)
	}
}
