//go:build !windows
// +build !windows

package mux

import (
	"math"
	"sync/atomic"
	"testing"

	"github.com/cloudwego/netpoll"
)

// F20: the shard of an Add is AddInt32(&q.idx, 1) % q.size computed in int32. After 2^31-1 Adds on one queue the
// counter wraps to a negative value, the remainder is negative and Add panics indexing the shard locks: the getter
// is never invoked. The test puts the counter right before the wrap (the history of 2^31-2 earlier Adds).
func TestF20ShardIndexAfterCounterWrap(t *testing.T) {
	r, w := netpoll.GetSysFdPairs()
	_ = w
	conn, err := netpoll.NewFDConnection(r)
	MustNil(t, err)
	q := NewShardQueue(3, conn)
	atomic.StoreInt32(&q.idx, math.MaxInt32-1)
	var invoked int32
	getter := func() (netpoll.Writer, bool) { atomic.AddInt32(&invoked, 1); return nil, true }
	defer func() {
		if e := recover(); e != nil {
			t.Fatalf("Add panicked after the shard counter wrapped: %v", e)
		}
	}()
	for i := 0; i < 4; i++ {
		q.Add(getter)
	}
	MustNil(t, q.Close())
	if n := atomic.LoadInt32(&invoked); n != 4 {
		t.Fatalf("%d of 4 getters invoked", n)
	}
}
