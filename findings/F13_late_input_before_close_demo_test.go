//go:build !windows
// +build !windows

package netpoll

import (
	"context"
	"sync/atomic"
	"syscall"
	"testing"
	"time"
)

// F13: data AND the peer's close arrive while the handler task is between its last "buffer empty" observation and
// unlock(processing). The task's re-check looks at the closing state first and runs the close callbacks without
// offering the buffered bytes to OnRequest. Needs the nil-by-default hook testHookBeforeUnlockProcessing (window patch).
func TestF13DataThenHupInsideUnlockWindow(t *testing.T) {
	r, w := GetSysFdPairs()
	var consumed, hooked, closed int32
	testHookBeforeUnlockProcessing = func(c *connection) {
		if !atomic.CompareAndSwapInt32(&hooked, 0, 1) {
			return
		}
		syscall.Write(w, []byte("BBBB"))
		syscall.Close(w)
		deadline := time.Now().Add(5 * time.Second)
		for (c.inputBuffer.Len() == 0 || c.IsActive()) && time.Now().Before(deadline) {
			time.Sleep(time.Millisecond)
		}
		time.Sleep(50 * time.Millisecond) // let onHup fail its trylock
	}
	defer func() { testHookBeforeUnlockProcessing = nil }()
	rconn := &connection{}
	err := rconn.init(&netFD{fd: r}, &options{onRequest: func(ctx context.Context, conn Connection) error {
		n := conn.Reader().Len()
		conn.Reader().Skip(n)
		conn.Reader().Release()
		atomic.AddInt32(&consumed, int32(n))
		return nil
	}})
	MustNil(t, err)
	rconn.AddCloseCallback(func(Connection) error { atomic.StoreInt32(&closed, atomic.LoadInt32(&consumed)+100); return nil })
	syscall.Write(w, []byte("AAAA"))
	deadline := time.Now().Add(10 * time.Second)
	for atomic.LoadInt32(&closed) == 0 && time.Now().Before(deadline) {
		time.Sleep(time.Millisecond)
	}
	if got := atomic.LoadInt32(&closed) - 100; got != 8 {
		t.Fatalf("close callbacks ran after the handler had been offered %d of the 8 bytes the peer sent before closing", got)
	}
}
