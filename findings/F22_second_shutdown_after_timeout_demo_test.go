//go:build !windows
// +build !windows

package netpoll

import (
	"context"
	"sync/atomic"
	"testing"
	"time"
)

// F22: a Shutdown that times out (busy connection) has already cleared the event loop's server handle; the next
// Shutdown finds no server and returns nil at once although the busy connection is still tracked and its handler
// still running. (The suite's TestGracefulExit relies on this: its "shutdown success" call reuses an expired context.)
func TestF22SecondShutdownAfterTimeout(t *testing.T) {
	ln, err := CreateListener("tcp", "127.0.0.1:0")
	MustNil(t, err)
	addr := ln.Addr().String()
	var running int32
	release := make(chan struct{})
	elp, err := NewEventLoop(func(ctx context.Context, conn Connection) error {
		atomic.AddInt32(&running, 1)
		<-release
		n := conn.Reader().Len()
		conn.Reader().Skip(n)
		atomic.AddInt32(&running, -1)
		return conn.Reader().Release()
	})
	MustNil(t, err)
	go elp.Serve(ln)
	time.Sleep(100 * time.Millisecond)
	cli, err := DialConnection("tcp", addr, time.Second)
	MustNil(t, err)
	defer cli.Close()
	_, err = cli.Write([]byte("ping"))
	MustNil(t, err)
	for i := 0; i < 200 && atomic.LoadInt32(&running) == 0; i++ {
		time.Sleep(5 * time.Millisecond)
	}
	ctx, cancel := context.WithTimeout(context.Background(), 100*time.Millisecond)
	defer cancel()
	if err := elp.Shutdown(ctx); err == nil {
		t.Fatal("first Shutdown should time out: a handler is busy")
	}
	t0 := time.Now()
	done := make(chan error, 1)
	go func() { done <- elp.Shutdown(context.Background()) }()
	select {
	case err := <-done:
		if err == nil && atomic.LoadInt32(&running) > 0 {
			close(release)
			t.Fatalf("second Shutdown returned nil after %v while %d handler(s) were still running and the connection was open", time.Since(t0), atomic.LoadInt32(&running))
		}
	case <-time.After(500 * time.Millisecond):
		// it waits for the busy connection: let the handler finish and expect nil then
	}
	close(release)
}
