//go:build !windows
// +build !windows

package netpoll

import (
	"context"
	"sync/atomic"
	"testing"
	"time"
)

// F19: Shutdown runs while the poller is inside onAccept for a connection it has accepted but not yet
// stored in the server's map: Shutdown's sweep does not see it, returns nil ("no tracked connection
// remains"), then onAccept stores the connection - it stays tracked, open and served for ever.
// Needs the nil-by-default hook of F19_window_hook.diff.
func TestF19AcceptDuringShutdown(t *testing.T) {
	ln, err := CreateListener("tcp", "127.0.0.1:0")
	MustNil(t, err)
	addr := ln.Addr().String()
	elp, err := NewEventLoop(func(ctx context.Context, conn Connection) error {
		n := conn.Reader().Len()
		conn.Reader().Skip(n)
		return conn.Reader().Release()
	})
	MustNil(t, err)
	served := make(chan error, 1)
	go func() { served <- elp.Serve(ln) }()
	time.Sleep(100 * time.Millisecond)

	var shutdownErr atomic.Value
	var hooked int32
	testHookBeforeTrack = func(s *server) {
		if !atomic.CompareAndSwapInt32(&hooked, 0, 1) {
			return
		}
		done := make(chan struct{})
		go func() {
			ctx, cancel := context.WithTimeout(context.Background(), 2*time.Second)
			defer cancel()
			shutdownErr.Store(struct{ err error }{elp.Shutdown(ctx)})
			close(done)
		}()
		<-done // Shutdown finishes while this accept is between Accept() and the map insert
	}
	defer func() { testHookBeforeTrack = nil }()

	cli, err := DialConnection("tcp", addr, time.Second)
	if err != nil {
		return // the server closed the connection it accepted during Shutdown at once: consistent
	}
	defer cli.Close()
	deadline := time.Now().Add(5 * time.Second)
	for shutdownErr.Load() == nil && time.Now().Before(deadline) {
		time.Sleep(10 * time.Millisecond)
	}
	res, _ := shutdownErr.Load().(struct{ err error })
	if shutdownErr.Load() == nil {
		t.Fatal("Shutdown did not run")
	}
	time.Sleep(200 * time.Millisecond)
	if res.err != nil {
		return // Shutdown reported that it could not finish: consistent
	}
	// Shutdown returned nil: no tracked connection may remain, the client must see the close
	cli.SetReadTimeout(time.Second)
	_, rerr := cli.Reader().Next(1)
	svr := elp.(*eventLoop)
	_ = svr
	if cli.IsActive() {
		t.Fatalf("Shutdown returned nil but the connection accepted during it is still open on the server side (client read: %v)", rerr)
	}
}
