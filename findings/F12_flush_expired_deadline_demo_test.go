package netpoll

import (
	"errors"
	"syscall"
	"testing"
	"time"
)

func TestF12DeadlinePassedLeavesPollerArmed(t *testing.T) {
	r, w := GetSysFdPairs()
	syscall.SetsockoptInt(w, syscall.SOL_SOCKET, syscall.SO_SNDBUF, 4096)
	conn, err := NewFDConnection(w)
	if err != nil {
		t.Fatal(err)
	}
	c := conn.(*connection)
	c.SetWriteDeadline(time.Now().Add(-time.Second)) // already passed
	payload := make([]byte, 8<<20)
	buf, _ := c.Malloc(len(payload))
	copy(buf, payload)
	err = c.Flush()
	if !errors.Is(err, ErrWriteTimeout) {
		t.Fatalf("expected write timeout, got %v", err)
	}
	left := c.outputBuffer.Len()
	if left == 0 {
		t.Skip("socket took everything")
	}
	// peer drains; nobody calls Flush again
	go func() {
		b := make([]byte, 1<<20)
		for {
			n, err := syscall.Read(r, b)
			if n <= 0 && err != syscall.EINTR && err != syscall.EAGAIN {
				return
			}
		}
	}()
	time.Sleep(500 * time.Millisecond)
	now := c.outputBuffer.Len()
	if now != left {
		t.Fatalf("Flush reported ErrWriteTimeout with %d bytes pending, yet the poller kept sending behind the caller's back: %d bytes pending now", left, now)
	}
}
