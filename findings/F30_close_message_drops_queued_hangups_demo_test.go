//go:build linux
// +build linux

package netpoll

import (
	"sync/atomic"
	"syscall"
	"testing"
	"time"
)

// Side observation (UNCHANGED library): when the close message is in the same batch as a hang-up,
// handler returns true before p.onhups() runs: the descriptor has been detached by appendHup but
// its OnHup is never called.
func TestSideCloseDropsHups(t *testing.T) {
	p, err := openDefaultPoll()
	if err != nil {
		t.Fatal(err)
	}
	stopped := make(chan struct{})
	go func() {
		p.Wait()
		close(stopped)
	}()

	bfd, bpeer := GetSysFdPairs()
	defer syscall.Close(bfd)
	defer syscall.Close(bpeer)
	entered, release := make(chan struct{}), make(chan struct{})
	bop := &FDOperator{FD: bfd, poll: p}
	bop.OnRead = func(Poll) error {
		var b [1]byte
		syscall.Read(bfd, b[:])
		entered <- struct{}{}
		<-release
		return nil
	}
	if err = p.Control(bop, PollReadable); err != nil {
		t.Fatal(err)
	}

	afd, apeer := GetSysFdPairs()
	defer syscall.Close(afd)
	var hups int32
	aop := &FDOperator{FD: afd, poll: p}
	aop.OnRead = func(Poll) error { return nil }
	aop.OnHup = func(Poll) error {
		atomic.AddInt32(&hups, 1)
		return nil
	}
	if err = p.Control(aop, PollReadable); err != nil {
		t.Fatal(err)
	}

	// park the poller, then make A hang up and close the poller: next batch is [A(hup), wake-up(close)]
	syscall.Write(bpeer, []byte{1})
	<-entered
	syscall.Close(apeer)
	p.Close()
	release <- struct{}{}

	select {
	case <-stopped:
	case <-time.After(5 * time.Second):
		t.Fatal("loop did not stop")
	}
	time.Sleep(100 * time.Millisecond)
	if atomic.LoadInt32(&aop.detached) == 0 {
		t.Skip("A's event was not dispatched before the close message")
	}
	if n := atomic.LoadInt32(&hups); n != 1 {
		t.Errorf("A was detached by the poller but OnHup was called %d times, want 1", n)
	}
}
