//go:build linux
// +build linux

package netpoll

import (
	"context"
	"syscall"
	"testing"
	"time"
)

// F26 (run with -race): Detach() writes netFD.detaching with a plain store while the hang-up teardown (another
// goroutine) reads it in netFD.Close. Side observation of the round-4 C19 sub-agent; -race reports it before the fix commit.
func TestF26DetachVsHangUpRace(t *testing.T) {
	for i := 0; i < 200; i++ {
		rfd, wfd := GetSysFdPairs()
		c, err := NewFDConnection(rfd)
		if err != nil {
			t.Fatal(err)
		}
		c.SetOnRequest(func(ctx context.Context, conn Connection) error { return nil })
		go syscall.Close(wfd) // peer hangs up: the hang-up goroutine runs the finalizer (netFD.Close reads detaching)
		time.Sleep(time.Duration(i%10) * 20 * time.Microsecond)
		c.(interface{ Detach() error }).Detach() // writes c.detaching without synchronisation
		syscall.Close(rfd)
	}
	time.Sleep(50 * time.Millisecond)
}
