//go:build !windows
// +build !windows

package mux

import (
	"sync/atomic"
	"testing"
	"time"
)

// Needs side_close_window.diff (a hook between the ring write and the trigger bump in triggering) and
// side_close_test.go (helpers). Deterministic version of side observation 2.
func TestSideCloseReturnsBeforeGetterInvokedWindow(t *testing.T) {
	conn := &sideConn{}
	conn.w.c = conn
	q := NewShardQueue(4, conn)
	hold := make(chan struct{})
	inHook := make(chan struct{})
	testHookAfterRing = func(shard int32) {
		if shard == 1 { // Add A
			close(inHook)
			<-hold
		}
	}
	defer func() { testHookAfterRing = nil }()

	var callsA, callsB int32
	doneA := make(chan struct{})
	go func() { q.Add(sideGetter(&callsA)); close(doneA) }() // shard 1, held after the ring write
	<-inHook
	q.Add(sideGetter(&callsB)) // shard 2: bumps trigger to 1, the worker consumes A's ring entry
	closed := make(chan struct{})
	go func() { q.Close(); close(closed) }()
	select {
	case <-closed:
		if atomic.LoadInt32(&callsB) == 0 {
			t.Errorf("Close returned while getter B, added before Close by the same goroutine, had not been invoked")
		}
	case <-time.After(time.Second):
	}
	close(hold)
	<-doneA
	<-closed
	time.Sleep(100 * time.Millisecond)
	t.Logf("after A finished: A invoked %d, B invoked %d", atomic.LoadInt32(&callsA), atomic.LoadInt32(&callsB))
}
