package netpoll

import (
	"testing"
	"unsafe"
)

// F15 (C03): two WriteDirect calls at the same insertion point (nothing malloc'ed between them) with
// remainLen > 0. The origin search of the second call stops on the data node of the first call, which
// wraps caller memory; the split then made a *managed* node out of that caller memory and Release/Close
// handed it to the pool. Fails before the fix commit, passes after it.
// (copy to the package directory as f15_demo_test.go to run)
func TestF15WriteDirectTwiceAtSameOffsetFreesCallerMemory(t *testing.T) {
	for round := 0; round < 4; round++ {
		buf := NewLinkBuffer()
		bt, _ := buf.Malloc(32)
		bt[0], bt[1] = 'a', 'b'
		a := make([]byte, 64) // caller-owned, power-of-two capacity
		for i := range a {
			a[i] = 'A'
		}
		if err := buf.WriteDirect(a, 30); err != nil {
			t.Fatal(err)
		}
		if err := buf.WriteDirect([]byte("xyz"), 30); err != nil {
			t.Fatal(err)
		}
		buf.Flush()
		if buf.Len() != 32+64+3 {
			t.Fatalf("len %d", buf.Len())
		}
		buf.Skip(buf.Len())
		buf.Release()
		buf.Close()
		// the caller still owns a; take blocks of its size class out of the pool
		var held [][]byte
		for i := 0; i < 16; i++ {
			p := malloc(64, 64)
			held = append(held, p)
			if unsafe.Pointer(&p[:1][0]) == unsafe.Pointer(&a[0]) {
				t.Fatalf("round %d: the pool handed out the caller's WriteDirect slice", round)
			}
			for j := range p {
				p[j] = 'Z'
			}
		}
		for i := range a {
			if a[i] != 'A' {
				t.Fatalf("round %d: caller memory overwritten at %d", round, i)
			}
		}
		_ = held
	}
}
