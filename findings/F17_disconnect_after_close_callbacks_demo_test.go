//go:build !windows
// +build !windows

package netpoll

import (
	"context"
	"sync"
	"syscall"
	"testing"
	"time"
)

// F17: the peer closes while an OnRequest invocation is in progress. onHup marks the connection closed
// (closeBy(poller)) before it calls onDisconnect(); a handler that returns in between makes the handler
// task see closing != none and run the close callbacks - OnDisconnect then starts after them.
// Needs the nil-by-default hook of F17_window_hook.diff.
func TestF17DisconnectAfterCloseCallbacks(t *testing.T) {
	r, w := GetSysFdPairs()
	var mu sync.Mutex
	var order []string
	log := func(s string) { mu.Lock(); order = append(order, s); mu.Unlock() }
	release := make(chan struct{})
	testHookAfterCloseByPoller = func(c *connection) {
		close(release)                     // the handler in progress returns now
		time.Sleep(300 * time.Millisecond) // ... while onHup has not reached onDisconnect() yet
	}
	defer func() { testHookAfterCloseByPoller = nil }()
	rconn := &connection{}
	err := rconn.init(&netFD{fd: r}, &options{
		onRequest: func(ctx context.Context, conn Connection) error {
			n := conn.Reader().Len()
			conn.Reader().Skip(n)
			conn.Reader().Release()
			<-release
			return nil
		},
		onDisconnect: func(ctx context.Context, conn Connection) { log("OnDisconnect") },
	})
	MustNil(t, err)
	rconn.AddCloseCallback(func(Connection) error { log("CloseCallback"); return nil })
	syscall.Write(w, []byte("AAAA"))
	time.Sleep(100 * time.Millisecond) // handler is now in progress
	syscall.Close(w)
	deadline := time.Now().Add(5 * time.Second)
	for time.Now().Before(deadline) {
		mu.Lock()
		n := len(order)
		mu.Unlock()
		if n >= 2 {
			break
		}
		time.Sleep(10 * time.Millisecond)
	}
	mu.Lock()
	defer mu.Unlock()
	if len(order) != 2 || order[0] != "OnDisconnect" || order[1] != "CloseCallback" {
		t.Fatalf("callback order %v, want [OnDisconnect CloseCallback]", order)
	}
}
