//go:build !windows
// +build !windows

package mux

import (
	"runtime"
	"sync"
	"sync/atomic"
	"testing"
	"time"

	"github.com/cloudwego/netpoll"
)

// Side observations on the UNCHANGED library (see notes.md).

type sideConn struct {
	netpoll.Connection
	w sideWriter

	mu      sync.Mutex
	gate    chan struct{}
	entered int32
	flushed int32
}

type sideWriter struct {
	netpoll.Writer
	c *sideConn
}

func (c *sideConn) IsActive() bool         { return true }
func (c *sideConn) Writer() netpoll.Writer { return &c.w }
func (c *sideConn) Close() error           { return nil }

func (w *sideWriter) Append(b netpoll.Writer) error { return nil }
func (w *sideWriter) Flush() error {
	c := w.c
	c.mu.Lock()
	g := c.gate
	c.mu.Unlock()
	atomic.AddInt32(&c.entered, 1)
	if g != nil {
		<-g
	}
	atomic.AddInt32(&c.flushed, 1)
	return nil
}

func sideGetter(calls *int32) WriterGetter {
	return func() (netpoll.Writer, bool) {
		atomic.AddInt32(calls, 1)
		buf := netpoll.NewLinkBuffer(8)
		buf.Malloc(8)
		return buf, false
	}
}

// Side observation 1: the worker brings the trigger counter to 0 before it flushes, so Close can
// return while the data of a getter added before it is appended but not yet flushed.
func TestSideCloseReturnsBeforeFlush(t *testing.T) {
	conn := &sideConn{gate: make(chan struct{})}
	conn.w.c = conn
	q := NewShardQueue(4, conn)
	var calls int32
	q.Add(sideGetter(&calls))
	for atomic.LoadInt32(&conn.entered) == 0 {
		time.Sleep(time.Millisecond)
	}
	done := make(chan struct{})
	go func() { q.Close(); close(done) }()
	select {
	case <-done:
		if atomic.LoadInt32(&conn.flushed) == 0 {
			t.Errorf("Close returned while the flush of the getter's data has not completed")
		}
	case <-time.After(time.Second):
		// Close waits for the flush: fine
	}
	close(conn.gate)
	<-done
}

// Side observation 2: Add A has written its shard into the ring but has not yet bumped the trigger
// counter; Add B (another shard) bumps it to 1; the worker consumes ONE ring entry - A's - and brings
// the counter to 0 while B's shard is still pending. B's goroutine then calls Close, which sees
// trigger==0 and returns although B's getter (added before Close by the same goroutine) has not been
// invoked; it is invoked later, when A finally bumps the counter. The window is a few instructions
// wide, so this brute-force search only finds it when A is descheduled there (rare).
func TestSideCloseReturnsBeforeGetterInvoked(t *testing.T) {
	deadline := time.Now().Add(25 * time.Second)
	iters := 0
	for time.Now().Before(deadline) {
		iters++
		conn := &sideConn{}
		conn.w.c = conn
		q := NewShardQueue(4, conn)
		var callsA, callsB int32
		var atClose int32 = -1
		start := make(chan struct{})
		var wg sync.WaitGroup
		wg.Add(2)
		go func() {
			defer wg.Done()
			<-start
			q.Add(sideGetter(&callsA))
		}()
		go func() {
			defer wg.Done()
			<-start
			q.Add(sideGetter(&callsB))
			q.Close()
			atClose = atomic.LoadInt32(&callsB)
		}()
		runtime.Gosched()
		close(start)
		wg.Wait()
		if atClose == 0 {
			t.Fatalf("iteration %d: Close returned while the getter added before it by the same goroutine had not been invoked", iters)
		}
	}
	t.Logf("%d iterations, window not hit", iters)
}
