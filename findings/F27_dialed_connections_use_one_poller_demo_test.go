//go:build !windows
// +build !windows

package netpoll

import (
	"net"
	"testing"
	"time"
)

// F27 (open): a dialed connection consumes two round-robin Picks - one for the dialer's temporary slot (newPollDesc),
// one for the connection's own slot (initFDOperator) - so with an even number of pollers every dialed connection is
// registered on the same poller. Written by the round-4 C18 sub-agent as a side observation; fails on the current tree.
func TestF27DialedConnectionsUseOnePoller(t *testing.T) {
	ln, err := net.Listen("tcp", "127.0.0.1:0")
	MustNil(t, err)
	defer ln.Close()
	go func() {
		for {
			c, err := ln.Accept()
			if err != nil {
				return
			}
			defer c.Close()
		}
	}()
	old := pollmanager.numLoops
	MustNil(t, SetNumLoops(2))
	defer SetNumLoops(int(old))

	counts := map[Poll]int{}
	for i := 0; i < 10; i++ {
		c, err := DialConnection("tcp", ln.Addr().String(), time.Second)
		MustNil(t, err)
		counts[c.(*TCPConnection).operator.poll]++
		defer c.Close()
	}
	if len(counts) != 2 {
		t.Fatalf("10 consecutive dialed connections were registered on %d of 2 pollers: %v", len(counts), counts)
	}
}
