package netpoll

import "testing"

// Side observation (unchanged library): appending a buffer that holds flushed
// bytes to a buffer that still has pending bytes makes the appended bytes
// readable at once (before any Flush of the receiver) and ahead of the
// receiver's older pending bytes; after the Flush the older bytes are counted
// in Len but lie behind the read cursor.
func TestSideAppendBehindPending(t *testing.T) {
	b := NewLinkBuffer(64)
	p, _ := b.Malloc(3)
	copy(p, "abc") // pending, not flushed

	donor := NewLinkBuffer(64)
	q, _ := donor.Malloc(5)
	copy(q, "12345")
	donor.Flush()

	b.Append(donor)
	if b.Len() != 0 {
		t.Errorf("Len before Flush = %d, want 0 (nothing was flushed on the receiver)", b.Len())
	}
	b.Flush()
	if b.Len() != 8 {
		t.Fatalf("Len after Flush = %d, want 8", b.Len())
	}
	got, err := b.Peek(8)
	if err != nil {
		t.Fatal(err)
	}
	if string(got) != "abc12345" {
		t.Fatalf("read %q, want %q", got, "abc12345")
	}
}

func TestSideAppendBehindPendingRead(t *testing.T) {
	b := NewLinkBuffer(64)
	p, _ := b.Malloc(3)
	copy(p, "abc") // pending, written first

	donor := NewLinkBuffer(64)
	q, _ := donor.Malloc(5)
	copy(q, "12345")
	donor.Flush()
	b.Append(donor)

	if got, err := b.Next(5); err == nil {
		t.Errorf("Next(5) before Flush returned %q, want a not-enough error", got)
	}
	b.Flush()
	t.Logf("Len after Flush = %d", b.Len())
	defer func() {
		if r := recover(); r != nil {
			t.Fatalf("Next(3) after Flush panicked: %v", r)
		}
	}()
	got, err := b.Next(3)
	if err != nil || string(got) != "abc" {
		t.Fatalf("Next(3) = %q, %v; want \"abc\"", got, err)
	}
}
