//go:build linux
// +build linux

package netpoll

import (
	"os"
	"strings"
	"syscall"
	"testing"
	"time"
)

func countPollerFds() (n int) {
	ents, _ := os.ReadDir("/proc/self/fd")
	for _, e := range ents {
		l, err := os.Readlink("/proc/self/fd/" + e.Name())
		if err == nil && (strings.Contains(l, "eventpoll") || strings.Contains(l, "eventfd")) {
			n++
		}
	}
	return n
}

// F18: manager.Run grows the pool; opening a poller fails half way (EMFILE). Run returns the error, its
// deferred m.Close() closes the old pool - the pollers already opened by this call live only in the local
// slice and are never closed: their epoll and eventfd descriptors (and loops) stay for the life of the process.
func TestF18FailedGrowthLeaksPollers(t *testing.T) {
	before := countPollerFds()
	m := new(manager)
	m.SetLoadBalance(RoundRobin)
	// leave room for a few descriptors only, then ask for many pollers
	var old syscall.Rlimit
	MustNil(t, syscall.Getrlimit(syscall.RLIMIT_NOFILE, &old))
	ents, _ := os.ReadDir("/proc/self/fd")
	max := 0
	for _, e := range ents {
		var v int
		for _, ch := range e.Name() {
			v = v*10 + int(ch-'0')
		}
		if v > max {
			max = v
		}
	}
	lim := syscall.Rlimit{Cur: uint64(max + 1 + 6), Max: old.Max} // room for three pollers (2 fds each)
	MustNil(t, syscall.Setrlimit(syscall.RLIMIT_NOFILE, &lim))
	m.SetNumLoops(16)
	err := m.Run()
	syscall.Setrlimit(syscall.RLIMIT_NOFILE, &old)
	if err == nil {
		t.Skip("growth did not fail; cannot provoke EMFILE here")
	}
	m.Close()
	time.Sleep(200 * time.Millisecond) // loops close their descriptors when they leave Wait
	if after := countPollerFds(); after != before {
		t.Fatalf("failed growth (%v): %d poller descriptors before, %d after Close", err, before, after)
	}
}
