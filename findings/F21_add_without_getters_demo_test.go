//go:build !windows
// +build !windows

package mux

import (
	"sync/atomic"
	"testing"
	"time"

	"github.com/cloudwego/netpoll"
)

// F21: Add() with no getters still triggers on an empty shard; the shard stays empty, so the next Add triggers it again:
// one shard owns several ring entries, the write index laps the read index and overwrites another shard's pending entry.
// That shard is non-empty, so no later Add triggers it: its getter is never invoked and Close returns nil.
// (written by the round-4 C17 sub-agent as a side observation; fails before the fix commit, passes after)
func TestF21AddWithoutGettersOverflowsTheTriggerRing(t *testing.T) {
	rfd, wfd := netpoll.GetSysFdPairs()
	rconn, _ := netpoll.NewFDConnection(rfd)
	wconn, _ := netpoll.NewFDConnection(wfd)
	defer rconn.Close()
	defer wconn.Close()
	queue := NewShardQueue(2, wconn)
	var aCalls int32
	entered, release := make(chan struct{}), make(chan struct{})
	mk := func(b byte, f func()) WriterGetter {
		return func() (netpoll.Writer, bool) {
			if f != nil {
				f()
			}
			buf := netpoll.NewLinkBuffer(8)
			p, _ := buf.Malloc(8)
			for k := range p {
				p[k] = b
			}
			buf.Flush()
			return buf, false
		}
	}
	queue.Add(mk('0', func() { close(entered); <-release })) // shard 1
	<-entered
	queue.Add(mk('a', func() { atomic.AddInt32(&aCalls, 1) })) // shard 0, ring slot 0
	queue.Add()                                                // shard 1 (empty) -> slot 1
	queue.Add()                                                // shard 0 (non-empty) -> no trigger
	queue.Add()                                                // shard 1 (still empty) -> slot 0 overwritten
	close(release)
	err := queue.Close()
	t.Logf("Close returned %v, a invoked %d times, trigger=%d", err, atomic.LoadInt32(&aCalls), queue.trigger)
	time.Sleep(500 * time.Millisecond)
	rconn.SetReadTimeout(time.Second)
	got, err := rconn.Reader().Next(16)
	t.Logf("peer got %q err=%v; a invoked %d times; len(shard0)=%d", got, err, atomic.LoadInt32(&aCalls), len(queue.getters[0]))
	if atomic.LoadInt32(&aCalls) != 1 {
		t.Fatal("getter a lost")
	}
}
