//go:build !windows
// +build !windows

package netpoll

import (
	"context"
	"sync/atomic"
	"syscall"
	"testing"
	"time"
)

// F16: data arrives while the handler task is between its last "buffer empty" observation and
// unlock(processing) (the poller's attempt to start a handler fails on the lock), and the peer's close is
// handled between the task's unlock and its re-checks: onHup takes the processing lock and runs the close
// callbacks without looking at the input buffer; the task's re-checks then fail to get the lock.
// Needs the two nil-by-default hooks of F16_window_hooks.diff.
func TestF16HupWinsTheLockInTheUnlockWindow(t *testing.T) {
	r, w := GetSysFdPairs()
	var consumed, hooked, hooked2, closed int32
	testHookBeforeUnlockProcessing = func(c *connection) {
		if !atomic.CompareAndSwapInt32(&hooked, 0, 1) {
			return
		}
		syscall.Write(w, []byte("BBBB"))
		deadline := time.Now().Add(5 * time.Second)
		for c.inputBuffer.Len() == 0 && time.Now().Before(deadline) {
			time.Sleep(time.Millisecond)
		}
		time.Sleep(50 * time.Millisecond) // let the poller fail its trylock
	}
	testHookAfterUnlockProcessing = func(c *connection) {
		if !atomic.CompareAndSwapInt32(&hooked2, 0, 1) {
			return
		}
		syscall.Close(w)
		deadline := time.Now().Add(5 * time.Second)
		for c.IsActive() && time.Now().Before(deadline) {
			time.Sleep(time.Millisecond)
		}
		time.Sleep(100 * time.Millisecond) // let onHup take the processing lock
	}
	defer func() { testHookBeforeUnlockProcessing, testHookAfterUnlockProcessing = nil, nil }()
	rconn := &connection{}
	err := rconn.init(&netFD{fd: r}, &options{onRequest: func(ctx context.Context, conn Connection) error {
		n := conn.Reader().Len()
		conn.Reader().Skip(n)
		conn.Reader().Release()
		atomic.AddInt32(&consumed, int32(n))
		return nil
	}})
	MustNil(t, err)
	rconn.AddCloseCallback(func(Connection) error { atomic.StoreInt32(&closed, atomic.LoadInt32(&consumed)+100); return nil })
	syscall.Write(w, []byte("AAAA"))
	deadline := time.Now().Add(10 * time.Second)
	for atomic.LoadInt32(&closed) == 0 && time.Now().Before(deadline) {
		time.Sleep(time.Millisecond)
	}
	if got := atomic.LoadInt32(&closed) - 100; got != 8 {
		t.Fatalf("close callbacks ran after the handler had been offered %d of the 8 bytes the peer sent before closing", got)
	}
}
