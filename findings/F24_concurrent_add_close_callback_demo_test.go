//go:build !windows
// +build !windows

package netpoll

import (
	"sync"
	"sync/atomic"
	"syscall"
	"testing"
	"time"
)

// F24: AddCloseCallback is a Load followed by a Store: two registrations that race lose one callback, which then
// never runs. Reachable without misuse: server.onAccept adds its untrack callback after the connection is already
// live, while that connection's OnRequest may be adding a callback of its own.
// (written by the round-4 C05 sub-agent as a side observation; probabilistic: a few hits per 100 000 rounds)
func TestF24ConcurrentAddCloseCallback(t *testing.T) {
	deadline := time.Now().Add(8 * time.Second)
	rounds, lost := 0, 0
	for time.Now().Before(deadline) {
		r, w := GetSysFdPairs()
		conn, _ := NewFDConnection(r)
		var n int32
		var wg sync.WaitGroup
		start := make(chan struct{})
		for k := 0; k < 2; k++ {
			wg.Add(1)
			go func() {
				defer wg.Done()
				<-start
				conn.AddCloseCallback(func(Connection) error { atomic.AddInt32(&n, 1); return nil })
			}()
		}
		close(start)
		wg.Wait()
		conn.Close()
		if atomic.LoadInt32(&n) != 2 {
			lost++
		}
		syscall.Close(w)
		rounds++
	}
	if lost > 0 {
		t.Fatalf("a close callback was lost (never ran) in %d of %d rounds", lost, rounds)
	}
}
