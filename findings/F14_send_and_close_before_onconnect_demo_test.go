//go:build !windows
// +build !windows

package netpoll

import (
	"context"
	"net"
	"sync/atomic"
	"syscall"
	"testing"
	"time"
)

type gatedConn struct {
	*netFD
	calls int32
	gate  chan struct{}
}

func (g *gatedConn) Fd() int {
	if atomic.AddInt32(&g.calls, 1) == 2 {
		<-g.gate // hold onAccept between register() and onConnect()
	}
	return g.netFD.fd
}
func (g *gatedConn) LocalAddr() net.Addr  { return nil }
func (g *gatedConn) RemoteAddr() net.Addr { return nil }

// F14: a client that sends a request and closes at once, handled by the poller before onAccept has called
// onConnect(): onRequest() defers to the (not yet started) OnConnect task, then onHup runs the close callbacks
// itself - the buffered request is never offered to OnRequest.
func TestF14SendAndCloseBeforeOnConnectStarts(t *testing.T) {
	r, w := GetSysFdPairs()
	var offered, closedAt int32
	opts := &options{
		onConnect: func(ctx context.Context, c Connection) context.Context { return ctx },
		onRequest: func(ctx context.Context, c Connection) error {
			n := c.Reader().Len()
			c.Reader().Skip(n)
			c.Reader().Release()
			atomic.AddInt32(&offered, int32(n))
			return nil
		},
	}
	s := &server{opts: opts}
	g := &gatedConn{netFD: &netFD{fd: r}, gate: make(chan struct{})}
	done := make(chan struct{})
	go func() { s.onAccept(g); close(done) }()
	for atomic.LoadInt32(&g.calls) < 2 {
		time.Sleep(time.Millisecond)
	}
	// the connection is registered; the accepting goroutine is parked before AddCloseCallback/Store/onConnect
	var conn *connection
	syscall.Write(w, []byte("REQUEST!"))
	syscall.Close(w)
	time.Sleep(200 * time.Millisecond) // poller: delivery (deferred to OnConnect), then hang-up
	close(g.gate)
	<-done
	s.connections.Range(func(k, v interface{}) bool { conn = v.(*connection); return true })
	_ = conn
	_ = closedAt
	time.Sleep(300 * time.Millisecond)
	if got := atomic.LoadInt32(&offered); got != 8 {
		t.Fatalf("the peer sent 8 bytes and closed; OnRequest was offered %d bytes before the connection was torn down", got)
	}
}
