package netpoll

import (
	"bytes"
	"testing"
)

// F11: a multi-node Peek result is overwritten by the next multi-node Peek after a consumption,
// although Release has not been called.
func TestF11PeekResultOverwrittenAfterNext(t *testing.T) {
	lb := NewLinkBuffer()
	// two nodes: write 4096+ bytes in two flushes so the data spans nodes
	mk := func(n int, start byte) {
		b, _ := lb.Malloc(n)
		for i := range b {
			b[i] = start + byte(i%200)
		}
		lb.Flush()
	}
	mk(4096, 0)
	mk(4096, 1)
	mk(4096, 2)
	p1, err := lb.Peek(6000) // crosses nodes -> cachePeek
	if err != nil {
		t.Fatal(err)
	}
	snap := append([]byte(nil), p1...)
	if _, err = lb.Next(100); err != nil {
		t.Fatal(err)
	}
	if _, err = lb.Peek(6000); err != nil { // crosses nodes again -> reuses the block
		t.Fatal(err)
	}
	if !bytes.Equal(p1, snap) {
		t.Fatalf("content of the first Peek result changed before Release")
	}
}

// F8: Slice over the first half of a node split by WriteDirect outlives the pool block.
func TestF8SliceOverWriteDirectSplit(t *testing.T) {
	lb := NewLinkBuffer()
	buf, _ := lb.Malloc(100)
	for i := range buf {
		buf[i] = 0xAA
	}
	extra := make([]byte, 5000)
	if err := lb.WriteDirect(extra, 50); err != nil { // split: [0:50] origin | extra | [50:100] newNode
		t.Fatal(err)
	}
	lb.Flush()
	s, err := lb.Slice(50) // refers to the origin half only
	if err != nil {
		t.Fatal(err)
	}
	// consume the rest and release the parent: newNode (the reusable half) frees the shared block
	lb.Skip(lb.Len())
	// move the buffer on to another node so that the split-off half is released too
	b2, _ := lb.Malloc(8000)
	_ = b2
	lb.Flush()
	lb.Skip(lb.Len())
	lb.Release()
	// the pool hands the block out again
	var grabbed [][]byte
	for i := 0; i < 64; i++ {
		g := malloc(4096, 4096)
		for j := range g {
			g[j] = 0x55
		}
		grabbed = append(grabbed, g)
	}
	p, err := s.Next(50)
	if err != nil {
		t.Fatal(err)
	}
	for _, c := range p {
		if c != 0xAA {
			t.Fatalf("Slice content changed before its Release: block was returned to the pool and re-issued (got %#x)", c)
		}
	}
	_ = grabbed
}
