//go:build !windows
// +build !windows

package netpoll

import (
	"errors"
	"syscall"
	"testing"
	"time"
)

// F25 (side observation of the round-4 C12 sub-agent; fails before the fix commit, passes after): with a read deadline that has already passed, a
// Reader call on a closed connection answers ErrReadTimeout, not ErrConnClosed / ErrEOF.
func TestF25ExpiredDeadlineOnClosedConn(t *testing.T) {
	for _, mode := range []string{"user", "peer"} {
		r, w := GetSysFdPairs()
		c := &connection{}
		if err := c.init(&netFD{fd: r}, nil); err != nil {
			t.Fatal(err)
		}
		c.SetReadDeadline(time.Now().Add(-time.Second))
		if mode == "user" {
			c.Close()
		} else {
			syscall.Close(w)
			for c.IsActive() {
				time.Sleep(time.Millisecond)
			}
		}
		_, err := c.Reader().Next(1)
		if !errors.Is(err, ErrConnClosed) {
			t.Errorf("%s close, expired read deadline: Next(1) = %v, want an error matching ErrConnClosed", mode, err)
		}
		if mode == "user" {
			syscall.Close(w)
		} else {
			c.Close()
		}
	}
}
