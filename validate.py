#!/usr/bin/env python3
import json, sys, glob
import jsonschema
m=json.load(open('/verif/MANIFEST.json')); jsonschema.validate(m, json.load(open('/root/.vp/MANIFEST.schema.json')))
es=json.load(open('/root/.vp/EVIDENCE.schema.json'))
for c in m['checks']:
    f=c['evidence_file']
    try:
        e=json.load(open(f)); jsonschema.validate(e, es)
        print('ok', c['property_id'], e['coverage']['obligations'], e['coverage']['distinct_nontrivial'], e['wall_s'])
    except Exception as ex:
        print('BAD', c['property_id'], str(ex)[:200])
print('manifest ok: claimed', len(m['checks']), 'na', len(m.get('not_applicable',[])))
