package main

import (
	"fmt"
	"go/token"
	"go/types"
	"strings"

	"golang.org/x/tools/go/ssa"
)

func init() {
	register("C03",
		"Decides structural necessary conditions of 'pool blocks returned at most once; caller memory never': (R1) the pool primitives have a frozen caller set - mcache.Free only through free(), free() only from node.Release and the reader's Release, linkedPool.Put only from node.Release, mcache.Malloc only through malloc(); (R2) in node.Release the block is freed only when the node is reusable (not flagUnmanaged) and the reference count reached zero, and the node's buf/origin/next are cleared before it is pooled; (R3) wherever a node's buf is set from a []byte or string parameter (caller memory) the node was created with newLinkBufferNode(0) - which marks it unmanaged - and the unmanaged flag is removed only from a node that was just given a slice of a managed node's block; (R4) malloc and free use the same bound in the same direction, and only malloc'ed blocks (never dirtmake ones, never the private copies returned by ReadBinary/ReadString/Read) are put into caches/cachePeek; (R5) plain writes of the reference count happen only on fresh or writer-private nodes. Ownership of a block is taken over only from a donor that was seen to own it (reusable()); after free(x) the field or element x came from is set to nil before the function returns. Not decided: 'at most once' over all histories of Slice/Release/Append/Close (a counting argument over run-time reference counts).",
		[]string{"mcache.Malloc/Free and sync.Pool behave as documented"},
		func(r *Run) {
			cfgs := []string{"linux"}
			if r.Tier == "thorough" {
				cfgs = []string{"linux", "linux-race", "darwin"}
			}
			for _, c := range cfgs {
				if r.useOpt(c) == nil {
					continue
				}
				c03(r)
			}
		})
}

func isExtCall(i ssa.Instruction, pkgSuffix, name string) bool {
	f := calleeOf(i)
	return f != nil && f.Pkg != nil && strings.HasSuffix(f.Pkg.Pkg.Path(), pkgSuffix) && f.Name() == name
}

// derivesFromParam: the []byte value is (a slice / conversion of) a []byte or string parameter of fn.
func derivesFromParam(v ssa.Value, fn *ssa.Function, depth int) bool {
	if depth > 6 {
		return false
	}
	switch x := v.(type) {
	case *ssa.Parameter:
		if x.Parent() != fn {
			return false
		}
		switch t := x.Type().Underlying().(type) {
		case *types.Slice:
			return true
		case *types.Basic:
			return t.Info()&types.IsString != 0
		}
	case *ssa.Slice:
		return derivesFromParam(x.X, fn, depth+1)
	case *ssa.Convert:
		return derivesFromParam(x.X, fn, depth+1)
	case *ssa.ChangeType:
		return derivesFromParam(x.X, fn, depth+1)
	case *ssa.Call:
		// unsafeStringToSlice(s)
		if c := x.Call.StaticCallee(); c != nil && c.Name() == "unsafeStringToSlice" {
			return derivesFromParam(x.Call.Args[0], fn, depth+1)
		}
	}
	return false
}

// nodeOrigin resolves which value a node expression denotes, looking through "store then load"
// of buffer cursor fields within one block (b.write.next = n; b.write = b.write.next; b.write.buf = ...).
func nodeOrigin(v ssa.Value, at ssa.Instruction, depth int) ssa.Value {
	if depth > 6 {
		return v
	}
	u, ok := v.(*ssa.UnOp)
	if !ok || u.Op != token.MUL {
		return v
	}
	path := stablePath(u.X)
	b := u.Block()
	pos := -1
	for i, ins := range b.Instrs {
		if ins == ssa.Instruction(u) {
			pos = i
		}
	}
	for i := pos - 1; i >= 0; i-- {
		if st, ok := b.Instrs[i].(*ssa.Store); ok && stablePath(st.Addr) == path {
			return nodeOrigin(st.Val, st, depth+1)
		}
	}
	return v
}

func c03(r *Run) {
	w := r.W
	freeFn := w.MustFn("free")
	mallocFn := w.MustFn("malloc")
	nodeRelease := w.MustFn("(*linkBufferNode).Release")
	newNode := w.MustFn("newLinkBufferNode")
	setFlag := w.MustFn("(*linkBufferNode).setFlag")
	unsetFlag := w.MustFn("(*linkBufferNode).unsetFlag")
	reusable := w.MustFn("(*linkBufferNode).reusable")
	unmanaged := w.ConstInt("flagUnmanaged")

	// ---- R1 who may free -----------------------------------------------------------------------------
	nFree := 0
	for _, f := range w.Funcs {
		name := w.FnName(f)
		for _, ins := range allIns(f) {
			switch {
			case isExtCall(ins, "/mcache", "Free"):
				nFree++
				r.ob("C03.R1:who-calls-mcache.Free:"+name, "mcache.Free is reached only through the free() wrapper (which keeps oversized heap blocks out of the pool)", f, ins, f == freeFn, "in "+name, false)
			case isExtCall(ins, "/mcache", "Malloc"):
				r.ob("C03.R1:who-calls-mcache.Malloc:"+name, "mcache.Malloc is reached only through the malloc() wrapper", f, ins, f == mallocFn, "in "+name, false)
			case isCall(ins, freeFn):
				// (or by a private helper that only one of them calls)
				_, ok := w.OwnerOf(f, func(n string) bool { return n == w.FnName(nodeRelease) || n == "(*UnsafeLinkBuffer).Release" })
				r.ob("C03.R1:who-frees:"+siteKey(w, ins), "blocks are returned to the pool only by node.Release (the node's own block) and by the reader's Release (blocks backing multi-node results)", f, ins, ok, "in "+name, false)
			case func() bool {
				fn := calleeOf(ins)
				if fn == nil || fn.Name() != "Put" || fn.Pkg == nil || fn.Pkg.Pkg.Path() != "sync" {
					return false
				}
				return strings.Contains(pathOf(callCommon(ins).Args[0]), "linkedPool")
			}():
				r.ob("C03.R1:who-pools-nodes:"+name, "node structs are put back into linkedPool only by node.Release", f, ins, f == nodeRelease, "in "+name, false)
			}
		}
	}
	if nFree == 0 {
		r.absentf(" C03: mcache.Free is never called")
	}

	// ---- R2' a freed block is forgotten: the place it was taken from is cleared before the function returns -----------
	{
		nFree := 0
		for _, site := range callSitesOf(w, freeFn) {
			fn := site.Parent()
			ld, ok := callCommon(site).Args[0].(*ssa.UnOp)
			if !ok || ld.Op != token.MUL {
				continue
			}
			switch ld.X.(type) {
			case *ssa.FieldAddr, *ssa.IndexAddr:
			default:
				continue
			}
			nFree++
			place := stablePath(ld.X)
			cleared := func(i ssa.Instruction) bool {
				st, ok := i.(*ssa.Store)
				return ok && stablePath(st.Addr) == place && isNilConst(st.Val)
			}
			r.mustPass("C03.R2:no-reference-kept-to-a-freed-block:"+siteKey(w, site), "after a block went back to the pool the field / element it was taken from is set to nil before the function returns: a kept reference (even an empty re-slice of it) would be written or handed out again while the pool gives the same block to someone else", fn, site, []Start{After(site)}, cleared, nil, nil, place+" = nil on every path after free()")
		}
		if nFree < 3 {
			r.absentf(" C03: only %d free() sites that take the block from a field", nFree)
		}
	}

	// a block parked in a buffer's caches has that buffer as its only owner: a list that takes the blocks of another buffer's
	// list (append(x.caches, y.caches...)) must empty the source before it returns, or both buffers free them
	for _, f := range w.Funcs {
		for _, ins := range allIns(f) {
			c, ok := ins.(*ssa.Call)
			if !ok {
				continue
			}
			bi, isB := c.Call.Value.(*ssa.Builtin)
			if !isB || bi.Name() != "append" || len(c.Call.Args) != 2 {
				continue
			}
			dstBase, isDst := loadOfField(c.Call.Args[0], "UnsafeLinkBuffer", "caches")
			srcBase, isSrc := loadOfField(c.Call.Args[1], "UnsafeLinkBuffer", "caches")
			if !isDst || !isSrc || dstBase == srcBase {
				continue
			}
			srcPath := stablePath(c.Call.Args[1].(*ssa.UnOp).X)
			cleared := func(i ssa.Instruction) bool {
				st, ok := i.(*ssa.Store)
				if !ok || stablePath(st.Addr) != srcPath {
					return false
				}
				if isNilConst(st.Val) {
					return true
				}
				sl, isSl := st.Val.(*ssa.Slice)
				if !isSl || sl.High == nil {
					return false
				}
				k, okc := constInt(sl.High)
				return okc && k == 0
			}
			r.mustPass("C03.R2:cached-blocks-have-one-owner:"+w.FnName(f), "when one buffer's cache list takes over the blocks of another's, the source list is emptied before the function returns: a block listed by two buffers goes back to the pool twice (and the second time it may already be someone else's)", f, ins, []Start{After(ins)}, cleared, nil, nil, "source caches cleared on every path after the append")
		}
	}

	// the ownership flags live in node.mode: it is written only by the flag helpers and where a node is (re)initialised from
	// the pool - nothing else resets it (a discarded caller-memory node must stay unmanaged)
	for _, f := range w.Funcs {
		for _, ins := range findIns(f, func(i ssa.Instruction) bool { return isStoreToField(i, "linkBufferNode", "mode") }) {
			name := w.FnName(f)
			ok := name == "(*linkBufferNode).setFlag" || name == "(*linkBufferNode).unsetFlag" || name == "newLinkBufferNode"
			r.ob("C03.R3:who-writes-node-mode:"+name, "linkBufferNode.mode (managed / exposed flags) is written only by setFlag, unsetFlag and the constructor: resetting it elsewhere makes caller memory look like a pool block", f, ins, ok, "in "+name, false)
		}
	}
	// ---- R2 free is guarded by ownership ---------------------------------------------------------------
	{
		isDec := func(v ssa.Value) bool {
			c, ok := v.(*ssa.Call)
			if !ok {
				return false
			}
			a := asAtomic(c)
			if a == nil || a.Op != "Add" || structFieldOfAddr(a.Addr) != "linkBufferNode.refer" {
				return false
			}
			k, okc := constInt(a.Args[0])
			return okc && k == -1
		}
		last := cmpAtom(isDec, isConstEq(0), eqRel)
		owned := callResultAtom(reusable, true)
		for _, site := range findIns(nodeRelease, func(i ssa.Instruction) bool { return isCall(i, freeFn) }) {
			r.guarded("C03.R2:free-only-last-owner", "node.Release frees the block only when the reference count dropped to zero", nodeRelease, site, last, nil, "guarded by AddInt32(&refer,-1)==0")
			r.guarded("C03.R2:free-only-managed", "node.Release frees the block only when the node owns pool memory (reusable(): not flagUnmanaged): caller memory and shared halves are never returned to the pool", nodeRelease, site, owned, nil, "guarded by reusable()==true")
			// the argument is the node's own buf
			_, isBuf := loadOfField(callCommon(site).Args[0], "linkBufferNode", "buf")
			r.ob("C03.R2:frees-own-block", "what is freed is the node's own buf", nodeRelease, site, isBuf, "free(node.buf)", true)
		}
		// reusable() is "flag not set"
		okR := false
		forEachIns(reusable, func(i ssa.Instruction) {
			if b, ok := i.(*ssa.BinOp); ok && b.Op == token.EQL && isConstEq(0)(b.Y) {
				if a, ok := b.X.(*ssa.BinOp); ok && a.Op == token.AND && isConstEq(unmanaged)(a.Y) {
					okR = true
				}
			}
		})
		r.ob("C03.R2:reusable-means-managed", "reusable() == (mode & flagUnmanaged == 0)", reusable, nil, okR, "mode&flagUnmanaged == 0", true)
		// before pooling the node forgets its memory
		for _, put := range findIns(nodeRelease, func(i ssa.Instruction) bool {
			f := calleeOf(i)
			return f != nil && f.Name() == "Put" && f.Pkg != nil && f.Pkg.Pkg.Path() == "sync"
		}) {
			for _, fld := range []string{"buf", "origin", "next"} {
				r.precedes("C03.R2:cleared-before-pooled:"+fld, "a node is put back into the pool only after its buf/origin/next were cleared (a recycled node must not alias a freed block or an old chain)", nodeRelease, put, func(i ssa.Instruction) bool {
					st, ok := i.(*ssa.Store)
					return ok && isStoreToField(i, "linkBufferNode", fld) && isNilConst(st.Val)
				}, nil, "node."+fld+" = nil dominates Put")
			}
		}
	}

	// ---- R3 caller memory => unmanaged node --------------------------------------------------------------
	nCaller := 0
	for _, fn := range w.Funcs {
		for _, ins := range allIns(fn) {
			st, ok := ins.(*ssa.Store)
			if !ok || !isStoreToField(ins, "linkBufferNode", "buf") {
				continue
			}
			if !derivesFromParam(st.Val, fn, 0) {
				continue
			}
			nCaller++
			node := nodeOrigin(st.Addr.(*ssa.FieldAddr).X, ins, 0)
			c, isCall := node.(*ssa.Call)
			okNode := false
			detail := "node is " + stablePath(node)
			if isCall && c.Call.StaticCallee() == newNode {
				if k, okc := constInt(c.Call.Args[0]); okc && k <= 0 {
					okNode = true
					detail = "node = newLinkBufferNode(0): unmanaged"
				}
			}
			if okNode {
				// no unsetFlag(flagUnmanaged) on that node in this function
				forEachIns(fn, func(j ssa.Instruction) {
					if isCallOrDefer(j, unsetFlag) && nodeOrigin(callCommon(j).Args[0], j, 0) == node {
						okNode = false
						detail = "unmanaged flag removed from a node that wraps caller memory"
					}
				})
			}
			r.ob("C03.R3:caller-memory-unmanaged:"+fn.Name()+":"+ordinal(nCaller-1), "a node whose buf is caller-owned memory (a []byte / string argument) is an unmanaged node: node.Release will never return that memory to the pool, growth() never hands it out for writing", fn, ins, okNode, detail, true)
		}
	}
	if nCaller < 2 {
		r.absentf(" C03: only %d stores of caller memory into node.buf", nCaller)
	}
	// who changes the ownership flag
	for _, site := range callSitesOf(w, unsetFlag) {
		fn := site.Parent()
		if k, ok := constInt(callCommon(site).Args[1]); !ok || k != unmanaged {
			continue
		}
		// allowed only on a fresh node whose buf was just set to a slice of another node's buf (ownership transfer)
		node := nodeOrigin(callCommon(site).Args[0], site, 0)
		transfer := false
		forEachIns(fn, func(j ssa.Instruction) {
			st, ok := j.(*ssa.Store)
			if !ok || !isStoreToField(j, "linkBufferNode", "buf") || st.Addr.(*ssa.FieldAddr).X != node {
				return
			}
			if sl, ok := st.Val.(*ssa.Slice); ok {
				if _, fromNode := loadOfField(sl.X, "linkBufferNode", "buf"); fromNode {
					transfer = true
				}
			}
		})
		r.ob("C03.R3:unmanaged-flag-removed:"+siteKey(w, site), "the unmanaged flag is removed only from a node that has just been given (a slice of) a managed node's block - an ownership transfer, never caller memory", fn, site, transfer, "buf derives from another node's buf", true)
		// ... and only when the donor owned the block: the donor may itself wrap caller memory
		// (the data node of an earlier WriteDirect at the same offset) or have given its block away already
		if transfer {
			r.guarded("C03.R3:donor-was-managed:"+siteKey(w, site), "ownership of a block is taken over from another node only after seeing that this node owned it (reusable()==true): a donor that wraps caller memory, or that already gave its block away, must not make a second owner", fn, site, callResultAtom(w.MustFn("(*linkBufferNode).reusable"), true), nil, "guarded by donor.reusable()==true")
		}
		// and the donor gives up ownership in the same function
		donorMarked := false
		forEachIns(fn, func(j ssa.Instruction) {
			if isCall(j, setFlag) {
				if k, ok := constInt(callCommon(j).Args[1]); ok && k == unmanaged {
					donorMarked = true
				}
			}
		})
		r.ob("C03.R3:ownership-transfer-complete:"+siteKey(w, site), "when ownership of a block moves to another node the previous owner is marked unmanaged in the same step (exactly one node frees the block)", fn, site, donorMarked, "donor.setFlag(flagUnmanaged)", true)
	}
	{
		// newLinkBufferNode: size <= 0 => unmanaged; otherwise buf from malloc
		nonPos := func(v ssa.Value) (bool, bool) {
			b, ok := v.(*ssa.BinOp)
			if !ok || !isConstEq(0)(b.Y) {
				return false, false
			}
			if _, isP := b.X.(*ssa.Parameter); !isP {
				return false, false
			}
			switch b.Op {
			case token.LEQ:
				return true, true
			case token.GTR:
				return false, true
			}
			return false, false
		}
		r.mustPass("C03.R3:zero-size-node-is-unmanaged", "a node created with size <= 0 (to wrap foreign memory) is marked unmanaged on every path", newNode, nil, edgesEstablishing(newNode, nonPos), func(i ssa.Instruction) bool {
			if !isCall(i, setFlag) {
				return false
			}
			k, ok := constInt(callCommon(i).Args[1])
			return ok && k == unmanaged
		}, nil, nil, "setFlag(flagUnmanaged) on every path from size<=0")
		positive := func(v ssa.Value) (bool, bool) {
			pol, ok := nonPos(v)
			return !pol, ok
		}
		r.mustPass("C03.R3:sized-node-owns-pool-block", "a node created with a positive size gets its block from malloc()", newNode, nil, edgesEstablishing(newNode, positive), func(i ssa.Instruction) bool {
			st, ok := i.(*ssa.Store)
			return ok && isStoreToField(i, "linkBufferNode", "buf") && isCallOf(mallocFn)(st.Val)
		}, nil, nil, "node.buf = malloc(...) on every path from size>0")
		// the mode is reset when a pooled node is reused
		r.mustPass("C03.R3:mode-reset-on-reuse", "a node taken from the pool has its flags reset before use", newNode, nil, []Start{Entry(newNode)}, func(i ssa.Instruction) bool {
			st, ok := i.(*ssa.Store)
			if !ok || !isStoreToField(i, "linkBufferNode", "mode") {
				return false
			}
			k, okc := constInt(st.Val)
			return okc && k == 0
		}, nil, nil, "node.mode = 0 on every path")
	}

	// ---- R4 pool / heap agreement ----------------------------------------------------------------------
	{
		maxC := w.ConstInt("mallocMax")
		bound := func(fn *ssa.Function, what string) (tok token.Token, ok bool) {
			forEachIns(fn, func(i ssa.Instruction) {
				if b, isB := i.(*ssa.BinOp); isB && isConstEq(maxC)(b.Y) {
					switch b.Op {
					case token.GTR, token.LEQ, token.LSS, token.GEQ:
						tok, ok = b.Op, true
					}
				}
			})
			return
		}
		mt, ok1 := bound(mallocFn, "malloc")
		ft, ok2 := bound(freeFn, "free")
		r.ob("C03.R4:same-bound", "malloc() and free() decide pool-vs-heap with the same constant in the same direction (a heap block is never freed into the pool, a pool block always is)", freeFn, nil, ok1 && ok2 && mt == ft, fmt.Sprintf("malloc: cap %s mallocMax, free: cap %s mallocMax", mt, ft), true)
		// in both, the pool call is on the not-greater side
		for _, c := range []struct {
			fn   *ssa.Function
			prim string
		}{{mallocFn, "Malloc"}, {freeFn, "Free"}} {
			big := func(v ssa.Value) (bool, bool) {
				b, ok := v.(*ssa.BinOp)
				if !ok || !isConstEq(maxC)(b.Y) {
					return false, false
				}
				switch b.Op {
				case token.GTR:
					return true, true
				case token.LEQ:
					return false, true
				}
				return false, false
			}
			r.neverReach("C03.R4:oversized-bypasses-pool:"+c.fn.Name(), "a block larger than mallocMax never touches the pool", c.fn, nil, edgesEstablishing(c.fn, big), func(i ssa.Instruction) bool { return isExtCall(i, "/mcache", c.prim) }, nil, nil, nil, "no mcache."+c.prim+" on the oversized side")
		}
	}
	// what goes into caches / cachePeek comes from malloc
	for _, fn := range w.Funcs {
		for _, ins := range allIns(fn) {
			st, ok := ins.(*ssa.Store)
			if !ok {
				continue
			}
			for _, fld := range []string{"caches", "cachePeek"} {
				if !isStoreToField(ins, "UnsafeLinkBuffer", fld) {
					continue
				}
				ok2, detail := poolOrigin(st.Val, fld, 0)
				r.ob("C03.R4:only-pool-blocks-cached:"+siteKey(w, ins), "only blocks obtained from malloc() are kept in caches / cachePeek (they are free()d by Release); heap blocks from dirtmake and private copies never are", fn, ins, ok2, detail, true)
			}
		}
	}
	// private copies come from dirtmake
	for _, name := range []string{"readBinary"} {
		fn := bufMethod(w, name)
		ok := true
		n := 0
		forEachIns(fn, func(i ssa.Instruction) {
			ret, isRet := i.(*ssa.Return)
			if !isRet {
				return
			}
			n++
			v := ret.Results[0]
			if phi, isPhi := v.(*ssa.Phi); isPhi {
				for _, e := range phi.Edges {
					if c, isC := e.(*ssa.Call); !isC || !isExtCallV(c, "/dirtmake", "Bytes") {
						ok = false
					}
				}
				return
			}
			if c, isC := v.(*ssa.Call); !isC || !isExtCallV(c, "/dirtmake", "Bytes") {
				ok = false
			}
		})
		r.ob("C03.R4:private-copy-is-heap:"+name, "the private copies returned by ReadBinary/ReadString are heap blocks (dirtmake), which nothing ever frees into the pool", fn, nil, ok && n > 0, "returns dirtmake.Bytes(...)", true)
	}

	// ---- R6 reference-count shape (shared with C02.R5) and R7 caller memory is never handed out for writing (C01.R5)
	r.borrow([]string{"C02.R5:"}, "C02.R5", "C03.R6", func() { c02(r) })
	r.borrow([]string{"C02.R2:recycle-only-unexposed", "C02.R2:reset-only-unexposed", "C02.R2:who-recycles"}, "C02.R2", "C03.R8", func() { c02(r) })
	r.borrow([]string{"C02.R4:WriteDirect:unlinked-split"}, "C02.R4", "C03.R6", func() { c02(r) })
	r.borrow([]string{"C01.R5:"}, "C01.R5", "C03.R7", func() { c01(r) })

	// ---- R5 plain writes of the reference count -----------------------------------------------------------
	for _, fn := range w.Funcs {
		for _, ins := range findIns(fn, func(i ssa.Instruction) bool { return isStoreToField(i, "linkBufferNode", "refer") }) {
			name := w.FnName(fn)
			ok := false
			why := ""
			switch {
			case fn == newNode:
				ok, why = true, "fresh node"
			case strings.HasPrefix(name, "init$"):
				ok, why = true, "pool constructor"
			case name == "(*UnsafeLinkBuffer).MallocAck":
				// only nodes behind the write cursor
				fa := ins.(*ssa.Store).Addr.(*ssa.FieldAddr)
				if phi, isPhi := fa.X.(*ssa.Phi); isPhi {
					for _, e := range phi.Edges {
						if base, isNext := loadOfField(e, "linkBufferNode", "next"); isNext {
							if _, isW := loadOfField(base, "UnsafeLinkBuffer", "write"); isW {
								ok, why = true, "nodes behind the write cursor (never flushed, never referred)"
							}
						}
					}
				}
			}
			r.ob("C03.R5:plain-refer-write:"+name, "the reference count is overwritten (not counted) only on fresh nodes and on writer-private nodes behind the write cursor", fn, ins, ok, why, true)
		}
	}
}

func isExtCallV(c *ssa.Call, pkgSuffix, name string) bool {
	f := c.Call.StaticCallee()
	return f != nil && f.Pkg != nil && strings.HasSuffix(f.Pkg.Pkg.Path(), pkgSuffix) && f.Name() == name
}

// poolOrigin: the []byte / [][]byte value stored into the field is nil, a re-slice of the field
// itself, or built only from malloc() results (or the other cache field's block).
var poolSeen = map[ssa.Value]bool{}

func poolOrigin(v ssa.Value, fld string, depth int) (bool, string) {
	if depth == 0 {
		poolSeen = map[ssa.Value]bool{}
	}
	if depth > 12 {
		return false, "too deep"
	}
	if _, isPhi := v.(*ssa.Phi); isPhi {
		if poolSeen[v] {
			return true, "cycle"
		}
		poolSeen[v] = true
	}
	switch x := v.(type) {
	case *ssa.Const:
		if x.Value == nil {
			return true, "nil"
		}
	case *ssa.Slice:
		return poolOrigin(x.X, fld, depth+1)
	case *ssa.UnOp:
		if x.Op == token.MUL {
			if _, ok := loadOfField(x, "UnsafeLinkBuffer", "caches"); ok {
				return true, "caches itself"
			}
			if _, ok := loadOfField(x, "UnsafeLinkBuffer", "cachePeek"); ok {
				return true, "the peek cache block (from malloc)"
			}
			// element of the varargs array
			if ia, ok := x.X.(*ssa.IndexAddr); ok {
				return poolOrigin(ia.X, fld, depth+1)
			}
		}
	case *ssa.Phi:
		for _, e := range x.Edges {
			if e == ssa.Value(x) {
				continue
			}
			if ok, d := poolOrigin(e, fld, depth+1); !ok {
				return false, d
			}
		}
		return true, "phi of pool-origin values"
	case *ssa.Call:
		if c := x.Call.StaticCallee(); c != nil && c.Name() == "malloc" && isModulePkg(c.Pkg.Pkg) {
			return true, "malloc()"
		}
		if bi, ok := x.Call.Value.(*ssa.Builtin); ok && bi.Name() == "append" {
			if ok, d := poolOrigin(x.Call.Args[0], fld, depth+1); !ok {
				return false, d
			}
			if len(x.Call.Args) > 1 {
				src := x.Call.Args[1]
				if fld == "cachePeek" {
					return true, "bytes appended into the peek block (a copy)"
				}
				// caches = append(caches, elems...): elems is a slice of a local array holding the elements
				if sl, ok := src.(*ssa.Slice); ok {
					if al, ok := sl.X.(*ssa.Alloc); ok {
						for _, ref := range *al.Referrers() {
							if ia, ok := ref.(*ssa.IndexAddr); ok {
								for _, r2 := range *ia.Referrers() {
									if st, ok := r2.(*ssa.Store); ok {
										if ok, d := poolOrigin(st.Val, fld, depth+1); !ok {
											return false, d
										}
									}
								}
							}
						}
						return true, "append of pool-origin blocks"
					}
				}
				return poolOrigin(src, fld, depth+1)
			}
			return true, "append"
		}
		return false, "result of " + callDesc(&x.Call)
	}
	return false, "origin " + stablePath(v)
}
