package main

import (
	"fmt"
	"go/token"
	"go/types"
	"strings"

	"golang.org/x/tools/go/ssa"
)

func init() {
	register("C11",
		"Decides the dispatch shape of the poller (epoll handler and its kqueue sibling) on every path: slot callbacks are written only by the initialisers and reset; the hang-up helper queues OnHup, deregisters (PollDetach) and only then releases the token, and OnHup values are invoked only by the goroutine started after the batch; every hang-up verdict has a reason (I/O error, hang-up with nothing read, error-queue probe not EAGAIN) and after it nothing else touches that slot in the iteration; with IN and HUP both set and a connection slot, readall precedes the hang-up decision, which requires totalRead==0; InputAck/OutputAck receive exactly the counts ioread/iosend returned and follow them on every path; the close message closes both poller descriptors, releases the token and makes Wait return; the eventfd is read before the trigger flag is reset. The epoll interest mask per poll event has the bits that event needs; the event array is not replaced between EpollWait and the dispatch of its batch; ioread/iosend report (0,nil) on EAGAIN. Not decided: what the kernel reports, ordering between descriptors.",
		[]string{"the kernel reports events as documented", "sync/atomic is linearizable"},
		func(r *Run) {
			cfgs := []string{"linux", "darwin"}
			if r.Tier == "thorough" {
				cfgs = []string{"linux", "linux-race", "darwin", "linux-arm64", "freebsd"}
			}
			for _, c := range cfgs {
				if r.useOpt(c) == nil {
					continue
				}
				c11(r)
			}
		})
}

func isDynField(i ssa.Instruction, typ, field string) bool {
	cc := callCommon(i)
	if cc == nil || cc.StaticCallee() != nil || cc.IsInvoke() {
		return false
	}
	for _, k := range dynCallKinds(cc) {
		if k == "field:"+typ+"."+field {
			return true
		}
	}
	return false
}

// guardChain walks the dominator tree upwards from b and returns the branch conditions that
// hold in b (innermost first).
type guardStep struct {
	Cond   ssa.Value
	Branch bool
}

func guardChain(b *ssa.BasicBlock) []guardStep {
	var out []guardStep
	for cur := b; cur != nil; cur = cur.Idom() {
		d := cur.Idom()
		if d == nil || len(d.Instrs) == 0 {
			continue
		}
		ifi, ok := d.Instrs[len(d.Instrs)-1].(*ssa.If)
		if !ok {
			continue
		}
		if len(cur.Preds) == 1 && cur.Preds[0] == d {
			if d.Succs[0] == cur && d.Succs[1] != cur {
				out = append(out, guardStep{ifi.Cond, true})
			} else if d.Succs[1] == cur && d.Succs[0] != cur {
				out = append(out, guardStep{ifi.Cond, false})
			}
		}
	}
	return out
}

func c11(r *Run) {
	w := r.W
	ro := r.roles()
	px := protoEffects(w)
	disp, getCall := dispatchFn(w)
	slot := ssa.Value(getCall)
	appendHup := w.MustFn("(*defaultPoll).appendHup")
	onhups := w.MustFn("(*defaultPoll).onhups")
	readall := w.MustFn("readall")
	ioread := w.MustFn("ioread")
	iosend := w.MustFn("iosend")
	linux := w.Cfg.GOOS == "linux"

	// ---- R0 who writes the slot's callbacks -------------------------------------------------------
	cbFields := map[string]bool{"OnRead": true, "OnWrite": true, "OnHup": true, "Inputs": true, "InputAck": true, "Outputs": true, "OutputAck": true}
	allowedWriters := map[string]string{
		"(*connection).initFDOperator": "connection initialiser (slot freshly allocated, not registered yet)",
		"newPollDesc":                  "dial-time slot initialiser (not registered yet)",
		"(*server).Run":                "listener slot literal (not registered yet)",
		"openDefaultPoll":              "wake-up slot literal",
		"(*FDOperator).reset":          "reset under freeable(), after the token was obtained",
	}
	nW := 0
	for _, f := range w.Funcs {
		seen := map[string]bool{}
		for _, ins := range findIns(f, func(i ssa.Instruction) bool {
			st, ok := i.(*ssa.Store)
			if !ok {
				return false
			}
			tn, fld, _, ok := fieldOf(st.Addr)
			return ok && tn == "FDOperator" && cbFields[fld]
		}) {
			name := w.FnName(f)
			if seen[name] {
				continue
			}
			seen[name] = true
			nW++
			_, ok := allowedWriters[name]
			r.ob("C11.R0:who-writes-callbacks:"+name, "the slot's callback fields are written only by the slot initialisers and by reset (so two tests of the same field within one dispatch iteration agree, and no callback changes under the poller)", f, ins, ok, allowedWriters[name], false)
		}
	}
	if nW < 3 {
		r.absentf(" C11: %d writers of FDOperator callbacks", nW)
	}

	// ---- R1 hang-up helper --------------------------------------------------------------------------
	{
		dones := findIns(appendHup, func(i ssa.Instruction) bool { return isCall(i, ro.opDone) })
		if len(dones) == 0 {
			r.ob("C11.R1:hup-helper-releases", "the hang-up helper releases the slot token", appendHup, nil, false, "no done()", false)
		}
		detaches := func(i ssa.Instruction) bool {
			_, isC := i.(*ssa.Call)
			return isC && px.Must(i, lbl("ctl", ro.evDetach))
		}
		queues := func(i ssa.Instruction) bool {
			return isStoreToField(i, "defaultPoll", "hups") || isStoreToField(i, "pollArgs", "hups")
		}
		for _, d := range dones {
			r.precedes("C11.R1:detach-before-release", "the descriptor is deregistered (PollDetach) before the token is released: no further event can be fetched for a slot whose hang-up is queued", appendHup, d, detaches, nil, "Control(PollDetach) dominates done()")
			r.precedes("C11.R1:queue-before-release", "the OnHup callback is copied out of the slot before the token is released (the slot may be reset right after)", appendHup, d, queues, nil, "hups = append(hups, OnHup) dominates done()")
		}
		r.mustPass("C11.R1:hup-helper-complete", "the helper always deregisters and releases", appendHup, nil, []Start{Entry(appendHup)}, func(i ssa.Instruction) bool { return isCall(i, ro.opDone) }, nil, nil, "done() on every path")
		// OnHup is never invoked straight from the slot
		for _, f := range w.Funcs {
			for _, ins := range findIns(f, func(i ssa.Instruction) bool { return isDynField(i, "FDOperator", "OnHup") }) {
				r.ob("C11.R1:onhup-not-inline:"+w.FnName(f), "OnHup is never invoked inline from the slot: hang-ups are queued and run after the batch on their own goroutine", f, ins, false, "direct call of operator.OnHup", false)
			}
			for _, ins := range findIns(f, func(i ssa.Instruction) bool {
				u, ok := i.(*ssa.UnOp)
				if !ok || u.Op != token.MUL {
					return false
				}
				tn, fld, _, ok := fieldOf(u.X)
				return ok && tn == "FDOperator" && fld == "OnHup"
			}) {
				r.ob("C11.R1:who-reads-onhup:"+w.FnName(f), "operator.OnHup is read only by the hang-up helper", f, ins, f == appendHup, "in "+w.FnName(f), false)
			}
		}
		// onhups(): the queued callbacks run on a fresh goroutine, and the queue is emptied first
		goes := findIns(onhups, func(i ssa.Instruction) bool { _, ok := i.(*ssa.Go); return ok })
		r.ob("C11.R1:hups-run-async", "queued hang-ups are run on a separate goroutine (they may block on user code)", onhups, nil, len(goes) == 1, fmt.Sprintf("%d go statements", len(goes)), false)
		{
			// ... all of them: the function that starts the goroutine invokes no queued callback itself (a hang-up callback may
			// block on user code, and the poller goroutine serves every other connection of this poller)
			var inline ssa.Instruction
			forEachIns(onhups, func(i ssa.Instruction) {
				cc := callCommon(i)
				if cc == nil || cc.StaticCallee() != nil || cc.IsInvoke() {
					return
				}
				if _, isGo := i.(*ssa.Go); isGo {
					return
				}
				if _, isBuiltin := cc.Value.(*ssa.Builtin); isBuiltin {
					return
				}
				if _, isClosure := cc.Value.(*ssa.MakeClosure); isClosure {
					return
				}
				inline = i
			})
			r.ob("C11.R1:no-hangup-callback-on-the-poller-goroutine", "the function that hands the queued hang-up callbacks to a goroutine calls none of them itself: OnHup runs user code (OnDisconnect, close callbacks) that may block, and the poller goroutine serves every other connection", onhups, inline, inline == nil, "no dynamic call in onhups() outside the go statement", true)
		}
		for _, g := range goes {
			r.precedes("C11.R1:hups-queue-cleared", "the queue is detached from the poller before the goroutine starts (each hang-up is reported once)", onhups, g, func(i ssa.Instruction) bool {
				st, ok := i.(*ssa.Store)
				return ok && (isStoreToField(i, "defaultPoll", "hups") || isStoreToField(i, "pollArgs", "hups")) && isNilConst(st.Val)
			}, nil, "p.hups = nil dominates the go statement")
		}
		// started after the dispatch loop
		for _, site := range findIns(disp, func(i ssa.Instruction) bool { return isCall(i, onhups) }) {
			isWaitSys := func(i ssa.Instruction) bool {
				f := calleeOf(i)
				return f != nil && (f.Name() == "EpollWait" || (f.Pkg != nil && f.Pkg.Pkg.Path() == "syscall" && f.Name() == "Kevent"))
			}
			r.neverReach("C11.R1:hups-after-batch", "the hang-up goroutine is started only when the batch has been dispatched completely", disp, site, []Start{After(site)}, isIns(getCall), isWaitSys, nil, nil, "no further dispatch before the next kernel wait")
		}
		if len(findIns(disp, func(i ssa.Instruction) bool { return isCall(i, onhups) })) == 0 {
			r.ob("C11.R1:hups-after-batch", "the dispatch function starts the hang-up goroutine", disp, nil, false, "no onhups() call", false)
		}
	}

	// ---- R2 / R3 / R4 hang-up verdicts --------------------------------------------------------------
	hupSites := findIns(disp, func(i ssa.Instruction) bool { return isCall(i, appendHup) })
	if len(hupSites) < 3 {
		r.absentf(" config=%s: %d hang-up sites in the dispatch function", w.Cfg.Name, len(hupSites))
	}
	// a hang-up that was queued (descriptor already deregistered) is always delivered: every way out of the dispatch
	// function after a queueing passes the hand-over to the hang-up goroutine - also the exit on the close message
	for n, site := range hupSites {
		r.mustPass(fmt.Sprintf("C11.R1:queued-hangup-is-delivered#%d", n+1), "once a hang-up was queued (its descriptor is deregistered, so no further event will ever report it) every exit of the dispatch function hands the queue to the hang-up goroutine first: a batch that also carries the poller's close message must not drop the hang-ups collected before it", disp, site, []Start{After(site)},
			func(i ssa.Instruction) bool { return isCall(i, onhups) }, nil, nil, "onhups() on every path from the queueing to a return")
	}
	var ioreads, iosends, readalls []ssa.Instruction
	ioreads = findIns(disp, func(i ssa.Instruction) bool { return isCall(i, ioread) })
	iosends = findIns(disp, func(i ssa.Instruction) bool { return isCall(i, iosend) })
	readalls = findIns(disp, func(i ssa.Instruction) bool { return isCall(i, readall) })
	errOf := func(calls []ssa.Instruction) Atom {
		isErr := func(v ssa.Value) bool {
			e, ok := v.(*ssa.Extract)
			if !ok || e.Index != 1 {
				return false
			}
			for _, c := range calls {
				if e.Tuple == c.(ssa.Value) {
					return true
				}
			}
			return false
		}
		return cmpAtom(isErr, isNilConst, neqRel)
	}
	readErr, sendErr := errOf(ioreads), errOf(iosends)
	totalZero := func(v ssa.Value) (bool, bool) {
		b, ok := v.(*ssa.BinOp)
		if !ok || (b.Op != token.EQL && b.Op != token.NEQ) {
			return false, false
		}
		var x ssa.Value
		if isConstEq(0)(b.Y) {
			x = b.X
		} else if isConstEq(0)(b.X) {
			x = b.Y
		} else {
			return false, false
		}
		if !condUsesAny(x, append(append([]ssa.Instruction{}, ioreads...), readalls...)) {
			return false, false
		}
		return b.Op == token.EQL, true
	}
	isRecvmsg := func(v ssa.Value) bool {
		e, ok := v.(*ssa.Extract)
		if !ok {
			return false
		}
		c, ok := e.Tuple.(*ssa.Call)
		if !ok {
			return false
		}
		f := c.Call.StaticCallee()
		return f != nil && f.Name() == "Recvmsg"
	}
	isEAGAIN := func(v ssa.Value) bool {
		if mi, ok := v.(*ssa.MakeInterface); ok {
			v = mi.X
		}
		k, ok := constInt(v)
		return ok && k == 11 || ok && k == 35
	}
	probeBad := cmpAtom(isRecvmsg, isEAGAIN, neqRel)
	kinds := map[string]int{}
	var j2, probeSites []ssa.Instruction
	for i, site := range hupSites {
		reason := ""
		switch {
		case r.guardedQuiet(disp, site, readErr):
			reason = "read-error"
		case r.guardedQuiet(disp, site, sendErr):
			reason = "send-error"
		case r.guardedQuiet(disp, site, totalZero):
			reason = "hup-nothing-read"
			j2 = append(j2, site)
		case r.guardedQuiet(disp, site, probeBad):
			reason = "error-queue-probe"
			probeSites = append(probeSites, site)
		}
		kinds[reason]++
		r.ob(fmt.Sprintf("C11.R3:hup-verdict-has-reason#%d", i+1), "a hang-up is declared only for a reason: the read or send failed, the peer hung up and nothing was read in this iteration (totalRead==0), or the error-queue probe did not say EAGAIN", disp, site, reason != "", "reason: "+reason, true)
		// R2: nothing else for that slot afterwards
		r.neverReach(fmt.Sprintf("C11.R2:nothing-after-hup#%d", i+1), "after the hang-up verdict nothing else is dispatched for that slot in this iteration (its token is gone and OnHup is queued once)", disp, site, []Start{After(site)},
			func(x ssa.Instruction) bool { return usesValue(x, slot) }, isIns(getCall), nil, nil, "no use of the slot before the next fetch")
	}
	// the count the hang-up decision looks at is per event: it is not carried from one dispatch iteration to the next
	for i, site := range j2 {
		carried := false
		detail := "per-iteration value"
		for _, g := range guardChain(site.Block()) {
			if pol, ok := totalZero(g.Cond); ok && pol == g.Branch || ok {
				b := g.Cond.(*ssa.BinOp)
				x := b.X
				if isConstEq(0)(b.X) {
					x = b.Y
				}
				if h := loopCarried(x, getCall.Block(), map[ssa.Value]bool{}, 0); h != nil {
					carried = true
					detail = "the tested count flows through a phi of the dispatch loop header (b" + fmt.Sprint(h.Index) + "): bytes read for an earlier event suppress this event's hang-up"
				}
			}
		}
		r.ob(fmt.Sprintf("C11.R3:read-count-per-event#%d", i+1), "the 'nothing was read' test that decides a hang-up counts only the bytes read for this event", disp, site, !carried, detail, true)
	}
	for _, k := range []string{"read-error", "send-error", "hup-nothing-read"} {
		r.ob("C11.R3:verdict-kind-present:"+k, "the dispatch function reports this kind of hang-up", disp, nil, kinds[k] >= 1, fmt.Sprintf("%d sites", kinds[k]), false)
	}
	if linux {
		r.ob("C11.R4:verdict-kind-present:error-queue-probe", "EPOLLERR is answered by probing the error queue: hang-up unless EAGAIN (zero-copy notification)", disp, nil, kinds["error-queue-probe"] >= 1, fmt.Sprintf("%d sites", kinds["error-queue-probe"]), false)
		// the EAGAIN side releases the token and stops this iteration
		starts := edgesEstablishing(disp, cmpAtom(isRecvmsg, isEAGAIN, eqRel))
		r.mustPass("C11.R4:probe-eagain-releases", "when the probe says EAGAIN the event is dropped and the token released", disp, nil, starts, func(i ssa.Instruction) bool { return isCall(i, ro.opDone) }, nil, nil, "done() on every path")
	}
	// R3a: data before hang-up
	{
		inputsCalls := findIns(disp, func(i ssa.Instruction) bool { return isDynField(i, "FDOperator", "Inputs") })
		if len(inputsCalls) == 0 {
			r.absentf(" config=%s: dispatch function never invokes operator.Inputs", w.Cfg.Name)
		}
		var trigRead ssa.Value
		for _, g := range guardChain(inputsCalls[0].Block()) {
			v, br := stripNot(g.Cond, g.Branch)
			if !br {
				continue
			}
			if b, ok := v.(*ssa.BinOp); ok {
				if _, isF := loadOfFieldAny(b.X); isF {
					continue
				}
				if _, isF := loadOfFieldAny(b.Y); isF {
					continue
				}
			}
			if c, ok := v.(*ssa.Call); ok && c.Call.StaticCallee() == ro.opDo {
				continue
			}
			trigRead = v
			break
		}
		if trigRead == nil {
			r.absentf(" config=%s: cannot identify the readable-event condition guarding operator.Inputs", w.Cfg.Name)
		}
		inputsSet := fieldNonNilFact("FDOperator", "Inputs")
		onReadSet := fieldNonNilFact("FDOperator", "OnRead")
		assume := func(v ssa.Value) (bool, bool) {
			if v == trigRead {
				return true, true
			}
			if pol, ok := inputsSet(v); ok {
				return pol, true
			}
			if pol, ok := onReadSet(v); ok {
				return !pol, true
			}
			return false, false
		}
		doOK := callResultAtom(ro.opDo, true)
		held := edgesEstablishing(disp, doOK)
		for i, site := range j2 {
			ss := &Search{Fn: disp, Stop: func(x ssa.Instruction) bool { return isCall(x, readall) }, Assume: assume}
			wit := ss.Find(held, isIns(site), false)
			r.Visited += ss.Visited
			r.obW(fmt.Sprintf("C11.R3:drain-before-hup#%d", i+1), "for a connection slot with a readable event, the hang-up decision is reached only after readall drained the socket (bytes sent before the FIN are delivered before OnHup)", disp, site, wit, "readall() on every path (readable, Inputs set)")
		}
		// the error-queue verdict, too: when the same event carries a hang-up flag and a readable flag, it is reached only after
		// readall drained the socket (a unix socket answers the probe with something other than EAGAIN: judging before the drain
		// reports the hang-up with bytes unread)
		if len(readalls) > 0 {
			hupConds := map[ssa.Value]bool{}
			for _, g := range guardChain(readalls[0].Block()) {
				if g.Branch {
					hupConds[g.Cond] = true
				}
			}
			assumeHup := func(v ssa.Value) (bool, bool) {
				if hupConds[v] {
					return true, true
				}
				return assume(v)
			}
			for i, site := range probeSites {
				ss := &Search{Fn: disp, Stop: func(x ssa.Instruction) bool { return isCall(x, readall) }, Assume: assumeHup}
				wit := ss.Find(held, isIns(site), false)
				r.Visited += ss.Visited
				r.obW(fmt.Sprintf("C11.R3:drain-before-error-verdict#%d", i+1), "when an event carries the hang-up and the readable flag, the error-queue verdict (which also hangs the connection up) is reached only after readall drained the socket: bytes the peer sent before it went away are delivered before OnHup", disp, site, wit, "readall() on every path (hang-up flag, readable, Inputs set)")
			}
		}
		// readall's count feeds the decision
		for _, ra := range readalls {
			used := false
			for _, site := range j2 {
				for _, g := range guardChain(site.Block()) {
					if condUsesAny(g.Cond, []ssa.Instruction{ra}) {
						used = true
					}
				}
			}
			r.ob("C11.R3:drained-count-feeds-decision", "what readall delivered counts as read in this iteration (the hang-up waits for the next event)", disp, ra, used, "totalRead includes readall's count", true)
		}
		if len(readalls) == 0 {
			r.ob("C11.R3:drain-before-hup", "the dispatch function drains the socket before honouring a hang-up", disp, nil, false, "no readall() call", false)
		}
	}

	// after a descriptor is detached (and its slot freed) no callback fires for it: slots are spliced back only after the batch (C10.R3)
	if w.Cfg.Name == "linux" || w.Cfg.Name == "darwin" {
		r.borrow([]string{"C10.R3:who-splices", "C10.R3:splice-after-dispatch", "C10.R3:splice-after-batch", "C10.R3:freeable-waits-before-reset", "C10.R2:field-under-token"}, "C10.R", "C11.R2.", func() { c10(r) })
	}

	// ---- R5 counts ----------------------------------------------------------------------------------
	ackRules(r, "C11.R5", disp)
	ackRules(r, "C11.R5", readall)

	// ---- R6 close message / wake-up -----------------------------------------------------------------
	if linux {
		sysClose := func(suffix string) func(ssa.Instruction) bool {
			return func(i ssa.Instruction) bool {
				f := calleeOf(i)
				if f == nil || f.Pkg == nil || f.Pkg.Pkg.Path() != "syscall" || f.Name() != "Close" {
					return false
				}
				return strings.HasSuffix(pathOf(callCommon(i).Args[0]), suffix)
			}
		}
		closeMsg := func(v ssa.Value) (bool, bool) {
			b, ok := v.(*ssa.BinOp)
			if !ok || b.Op != token.GTR || !isConstEq(0)(b.Y) {
				return false, false
			}
			if strings.HasSuffix(pathOf(b.X), ".buf[0]") {
				return true, true
			}
			return false, false
		}
		starts := edgesEstablishing(disp, closeMsg)
		// the close message may be decoded by a private helper of the dispatch function that reports it as its result
		// (edgesEstablishing looks through such a helper): what the helper did on its own close edge counts
		var helper *ssa.Function
		var helperStarts []Start
		forEachIns(disp, func(i ssa.Instruction) {
			ifi, ok := i.(*ssa.If)
			if !ok {
				return
			}
			v, _ := stripNot(ifi.Cond, true)
			if _, direct := closeMsg(v); direct {
				return
			}
			if inner, ok := boolWrapperBody(v); ok {
				iv, _ := stripNot(inner, true)
				if _, is := closeMsg(iv); is {
					helper = v.(*ssa.Call).Call.StaticCallee()
					helperStarts = edgesEstablishing(helper, closeMsg)
				}
			}
		})
		onClose := func(key, rule string, target func(ssa.Instruction) bool, okDetail string) {
			if helper != nil && len(helperStarts) > 0 {
				ss := &Search{Fn: helper, Stop: target}
				wit := ss.Find(helperStarts, nil, true)
				r.Visited += ss.Visited
				if wit == nil {
					r.obW(key, rule, helper, nil, nil, okDetail+" (in the helper "+w.FnName(helper)+" that decodes the message)")
					return
				}
			}
			r.mustPass(key, rule, disp, nil, starts, target, nil, nil, okDetail)
		}
		onClose("C11.R6:close-closes-eventfd", "on the close message the wake-up descriptor is closed", sysClose(".wop.FD"), "close(wop.FD) on every path")
		onClose("C11.R6:close-closes-epollfd", "on the close message the epoll descriptor is closed", sysClose("p.fd"), "close(p.fd) on every path")
		onClose("C11.R6:close-releases-token", "the wake-up slot's token is released on the close path", func(i ssa.Instruction) bool { return isCall(i, ro.opDone) }, "done() on every path")
		// returns true, without dispatching further events
		ss := &Search{Fn: disp}
		bad := false
		for _, ret := range ss.Reachable(starts, func(i ssa.Instruction) bool { _, ok := i.(*ssa.Return); return ok }) {
			if k, ok := constInt(ret.(*ssa.Return).Results[0]); !ok || k != 1 {
				bad = true
			}
		}
		r.Visited += ss.Visited
		r.ob("C11.R6:close-returns-true", "the close path reports 'closed' to the wait loop", disp, nil, !bad && len(starts) > 0, "returns true", true)
		r.neverReach("C11.R6:close-stops-dispatch", "after the close message no further event of the batch is dispatched", disp, nil, starts, isIns(getCall), nil, nil, nil, "no further fetch")
		// Wait returns when the handler says closed
		// "try again" is not an error: a read/send that would block reports (0, nil); anything else non-nil makes the dispatch
		// function hang the connection up (readall loops until a short read, so its last attempt regularly meets EAGAIN)
		for _, name := range []string{"ioread", "iosend"} {
			fn := w.MustFn(name)
			eagain, okc := w.PkgConst("syscall", "EAGAIN")
			if !okc {
				broken("ANCHOR-LOST syscall.EAGAIN")
			}
			isAgain := func(v ssa.Value) (bool, bool) {
				b, ok := v.(*ssa.BinOp)
				if !ok || (b.Op != token.EQL && b.Op != token.NEQ) {
					return false, false
				}
				for _, side := range [][2]ssa.Value{{b.X, b.Y}, {b.Y, b.X}} {
					y := side[1]
					if mi, ok := y.(*ssa.MakeInterface); ok {
						y = mi.X
					}
					if k, ok := constInt(y); ok && k == eagain && types.Identical(side[0].Type(), types.Universe.Lookup("error").Type()) {
						return b.Op == token.EQL, true
					}
				}
				return false, false
			}
			starts := edgesEstablishing(fn, isAgain)
			okAll := len(starts) > 0
			ss := &Search{Fn: fn}
			for _, ret := range ss.Reachable(starts, func(i ssa.Instruction) bool { _, ok := i.(*ssa.Return); return ok }) {
				if !lastResultAll(ret.(*ssa.Return), isNilConst) {
					okAll = false
				}
			}
			r.Visited += ss.Visited
			r.ob("C11.R3:would-block-is-not-an-error:"+name, "when the kernel says EAGAIN "+name+" reports (0, nil): the dispatch function treats every non-nil error of a read or send as a reason to hang the connection up", fn, nil, okAll, "the err == EAGAIN edge returns a nil error", true)
		}
		{
			fn := w.MustFn("ioread")
			eofK := w.ConstInt("ErrEOF")
			for _, ins := range allIns(fn) {
				if n, ok := exceptionErrno(w, ins); ok && n == eofK {
					errNil := func(v ssa.Value) (bool, bool) {
						b, ok := v.(*ssa.BinOp)
						if !ok || (b.Op != token.EQL && b.Op != token.NEQ) || !isNilConst(b.Y) {
							return false, false
						}
						if !types.Identical(b.X.Type(), types.Universe.Lookup("error").Type()) {
							return false, false
						}
						return b.Op == token.EQL, true
					}
					r.guarded("C11.R3:eof-only-without-error", "ioread reports end-of-stream only for a read that returned 0 bytes AND no error: 0 bytes with EAGAIN/EINTR is 'nothing to read yet', and treating it as EOF hangs a healthy connection up", fn, ins, errNil, nil, "Exception(ErrEOF) guarded by err == nil")
				}
			}
		}
		waitFn := w.MustFn("(*defaultPoll).Wait")
		// between the kernel filling the event array and its dispatch nothing replaces the array: growing it (Reset) there
		// would dispatch a fresh, zeroed array and drop the batch - for edge-triggered registrations for good
		if w.Cfg.Name != "darwin" && w.Cfg.Name != "freebsd" {
			isEpollWait := func(i ssa.Instruction) bool { f := calleeOf(i); return f != nil && f.Name() == "EpollWait" }
			isDispatch := func(i ssa.Instruction) bool {
				c, ok := i.(*ssa.Call)
				return ok && strings.HasSuffix(pathOf(c.Call.Value), ".Handler")
			}
			replaces := func(i ssa.Instruction) bool {
				if c, ok := i.(*ssa.Call); ok && strings.HasSuffix(pathOf(c.Call.Value), ".Reset") {
					return true
				}
				return isStoreToField(i, "pollArgs", "events") || isStoreToField(i, "defaultPoll", "events")
			}
			// the batch handed to the dispatch function is events[:n]: only where n > 0 was established (EpollWait reports -1
			// together with EINTR, which the loop deliberately tolerates)
			for _, d := range findIns(waitFn, isDispatch) {
				var batch *ssa.Slice
				for _, a := range callCommon(d).Args {
					if sl, ok := a.(*ssa.Slice); ok && sl.High != nil {
						batch = sl
					}
				}
				if batch == nil {
					continue
				}
				n := batch.High
				isN := func(v ssa.Value) bool { return v == n }
				pos := anyAtom(
					cmpAtom(isN, isConstEq(0), func(op token.Token) (bool, bool) {
						switch op {
						case token.GTR:
							return true, true
						case token.LEQ:
							return false, true
						}
						return false, false
					}),
					cmpAtom(isN, isConstEq(1), func(op token.Token) (bool, bool) {
						switch op {
						case token.GEQ:
							return true, true
						case token.LSS:
							return false, true
						}
						return false, false
					}))
				r.guarded("C11.R6:batch-only-when-events-were-returned", "the wait loop slices the event array by the count EpollWait returned only where that count was seen to be positive: the count is -1 when the wait was interrupted (EINTR is tolerated on purpose), and events[:-1] panics the poller goroutine - every descriptor on it goes silent", waitFn, d, pos, nil, "guarded by n > 0")
			}
			waits := findIns(waitFn, isEpollWait)
			if len(waits) == 0 || len(findIns(waitFn, isDispatch)) == 0 {
				r.absentf(" C11: Wait has no EpollWait / Handler dispatch")
			}
			{
				stop1 := func(i ssa.Instruction) bool { return isEpollWait(i) || isDispatch(i) }
				s1 := &Search{Fn: waitFn, Stop: stop1}
				var wit *Witness
				for _, rp := range s1.Reachable(startsAfter(waits), replaces) {
					s2 := &Search{Fn: waitFn, Stop: isEpollWait}
					if wt := s2.Find([]Start{After(rp)}, isDispatch, false); wt != nil && wit == nil {
						wit = wt
					}
					r.Visited += s2.Visited
				}
				r.Visited += s1.Visited
				r.obW("C11.R6:batch-dispatched-from-the-array-that-was-filled", "between EpollWait filling the event array and the Handler dispatch of that batch the array is not replaced (the grow-on-full Reset belongs before the next wait): a batch dispatched from a fresh array is lost, and edge-triggered events are not reported again", waitFn, nil, wit, "no Reset / events store between an EpollWait and the dispatch of its batch")
			}
			// decoding the event word: the hang-up test covers both EPOLLHUP and EPOLLRDHUP (a hang-up the kernel reports as HUP
			// alone - an unconnected socket, a pipe whose writer went away - must still be detached), the others their own bit
			{
				masks := map[int64]bool{}
				forEachIns(disp, func(i ssa.Instruction) {
					b, ok := i.(*ssa.BinOp)
					if !ok || b.Op != token.AND {
						return
					}
					for _, v := range []ssa.Value{b.X, b.Y} {
						if k, okc := constInt(v); okc {
							masks[k] = true
						}
					}
				})
				hup, okh := w.PkgConst("syscall", "EPOLLHUP")
				rdhup, okr := w.PkgConst("syscall", "EPOLLRDHUP")
				epin, _ := w.PkgConst("syscall", "EPOLLIN")
				epout, _ := w.PkgConst("syscall", "EPOLLOUT")
				eperr, _ := w.PkgConst("syscall", "EPOLLERR")
				if !okh || !okr {
					broken("ANCHOR-LOST syscall.EPOLLHUP/EPOLLRDHUP")
				}
				r.ob("C11.R6:event-decoding:hang-up", "the dispatch function's hang-up test looks at EPOLLHUP and EPOLLRDHUP together", disp, nil, masks[hup|rdhup], fmt.Sprintf("masks used: %v", sortedKeys(masks)), false)
				r.ob("C11.R6:event-decoding:readable", "the readable test looks at EPOLLIN", disp, nil, masks[epin], "evt & EPOLLIN", false)
				r.ob("C11.R6:event-decoding:writable", "the writable test looks at EPOLLOUT", disp, nil, masks[epout], "evt & EPOLLOUT", false)
				r.ob("C11.R6:event-decoding:error", "the error test looks at EPOLLERR", disp, nil, masks[eperr], "evt & EPOLLERR", false)
			}
			// the interest masks: whatever else a connection waits for, readable and hang-up stay armed
			ctl := w.MustFn("(*defaultPoll).Control")
			bit := func(name string) int64 {
				c, ok := w.PkgConst("syscall", name)
				if !ok {
					broken("ANCHOR-LOST syscall.%s", name)
				}
				return c
			}
			in, out, rdhup := bit("EPOLLIN"), bit("EPOLLOUT"), bit("EPOLLRDHUP")
			type want struct {
				ev        string
				must, not int64
			}
			for _, wv := range []want{{"PollReadable", in | rdhup, out}, {"PollR2RW", in | out | rdhup, 0}, {"PollRW2R", in | rdhup, out}, {"PollWritable", out, 0}} {
				k := w.ConstInt(wv.ev)
				evIs := func(v ssa.Value) (bool, bool) {
					b, ok := v.(*ssa.BinOp)
					if !ok || b.Op != token.EQL {
						return false, false
					}
					if _, isP := b.X.(*ssa.Parameter); isP && isConstEq(k)(b.Y) {
						return true, true
					}
					return false, false
				}
				starts := edgesEstablishing(ctl, evIs)
				var mask int64 = -1
				var at ssa.Instruction
				ss := &Search{Fn: ctl}
				for _, st := range ss.Reachable(starts, func(i ssa.Instruction) bool { return isStoreToField(i, "epollevent", "events") }) {
					if c, ok := constInt(st.(*ssa.Store).Val); ok && mask == -1 {
						mask, at = c, st
					}
				}
				r.Visited += ss.Visited
				okm := mask != -1 && mask&wv.must == wv.must && mask&wv.not == 0
				r.ob("C11.R6:interest-mask:"+wv.ev, "the epoll interest installed for "+wv.ev+" contains the bits that event needs and not the ones it must not have: a connection waiting for writability still gets its readable / hang-up events (else peer data followed by a close is reported as a bare hang-up and the bytes are never read)", ctl, at, okm, fmt.Sprintf("mask %#x", mask), true)
			}
		}
		hTrue := func(v ssa.Value) (bool, bool) {
			c, ok := v.(*ssa.Call)
			if !ok {
				return false, false
			}
			if isDynField(c, "defaultPoll", "Handler") || c.Call.StaticCallee() == disp {
				return true, true
			}
			return false, false
		}
		r.neverReach("C11.R6:wait-returns-on-close", "Wait leaves its loop when the handler reports 'closed' (the descriptors are gone)", waitFn, nil, edgesEstablishing(waitFn, hTrue),
			func(i ssa.Instruction) bool { f := calleeOf(i); return f != nil && f.Name() == "EpollWait" }, nil, nil, nil, "no further EpollWait")
		// wake-up: read the eventfd, then clear the flag
		for _, st := range findIns(disp, func(i ssa.Instruction) bool {
			a := asAtomic(i)
			return a != nil && a.Op == "Store" && structFieldOfAddr(a.Addr) == "defaultPoll.trigger"
		}) {
			r.precedes("C11.R6:read-eventfd-before-clearing-flag", "the eventfd is read before the trigger flag is cleared: a Trigger() arriving in between writes again instead of being lost", disp, st, func(i ssa.Instruction) bool {
				f := calleeOf(i)
				return f != nil && f.Pkg != nil && f.Pkg.Pkg.Path() == "syscall" && f.Name() == "Read"
			}, nil, "syscall.Read dominates Store(trigger,0)")
		}
		// Trigger coalesces on the flag
		trig := w.MustFn("(*defaultPoll).Trigger")
		isAddTrig := func(v ssa.Value) bool {
			c, ok := v.(*ssa.Call)
			if !ok {
				return false
			}
			a := asAtomic(c)
			return a != nil && a.Op == "Add" && structFieldOfAddr(a.Addr) == "defaultPoll.trigger"
		}
		firstTrig := cmpAtom(isAddTrig, isConstEq(1), func(op token.Token) (bool, bool) {
			switch op {
			case token.GTR:
				return false, true
			case token.LEQ, token.EQL:
				return true, true
			}
			return false, false
		})
		starts = edgesEstablishing(trig, firstTrig)
		r.mustPass("C11.R6:first-trigger-writes", "the first Trigger() after a wake-up always writes the eventfd", trig, nil, starts, func(i ssa.Instruction) bool {
			f := calleeOf(i)
			return f != nil && f.Pkg != nil && f.Pkg.Pkg.Path() == "syscall" && f.Name() == "Write"
		}, nil, nil, "syscall.Write on every path from the first-trigger edge")
	}
}

func loadOfFieldAny(v ssa.Value) (string, bool) {
	u, ok := v.(*ssa.UnOp)
	if !ok || u.Op != token.MUL {
		return "", false
	}
	tn, f, _, ok := fieldOf(u.X)
	if !ok || tn != "FDOperator" {
		return "", false
	}
	return f, true
}

func usesValue(i ssa.Instruction, v ssa.Value) bool {
	var buf [8]*ssa.Value
	for _, op := range i.Operands(buf[:0]) {
		if *op == v {
			return true
		}
	}
	return false
}

// ackRules: in fn, every ioread is followed by InputAck with its count, every iosend by
// OutputAck with its count; the vectors read into / sent are the ones Inputs / Outputs returned.
func ackRules(r *Run, prefix string, fn *ssa.Function) {
	w := r.W
	ioread := w.MustFn("ioread")
	iosend := w.MustFn("iosend")
	for _, c := range []struct {
		io       *ssa.Function
		src, ack string
	}{{ioread, "Inputs", "InputAck"}, {iosend, "Outputs", "OutputAck"}} {
		calls := findIns(fn, func(i ssa.Instruction) bool { return isCall(i, c.io) })
		for i, call := range calls {
			key := fmt.Sprintf("%s:%s:%s#%d", prefix, fn.Name(), c.ack, i+1)
			isAck := func(x ssa.Instruction) bool { return isDynField(x, "FDOperator", c.ack) }
			// followed by the ack on every path, before anything else is decided
			r.mustPass(key+":follows", "every "+c.io.Name()+" is followed by "+c.ack+" on every path (also when it failed: the reserved/locked region must be given back)", fn, call, []Start{After(call)}, isAck, nil, nil, c.ack+" on every path")
			// with the same count
			ss := &Search{Fn: fn, Stop: isAck}
			acks := ss.Reachable([]Start{After(call)}, isAck)
			r.Visited += ss.Visited
			same := len(acks) > 0
			for _, a := range acks {
				arg := callCommon(a).Args[0]
				ex, ok := arg.(*ssa.Extract)
				if !ok || ex.Tuple != call.(ssa.Value) || ex.Index != 0 {
					same = false
				}
			}
			r.ob(key+":count", c.ack+" receives exactly the byte count "+c.io.Name()+" returned", fn, call, same, "argument is the syscall wrapper's first result", true)
			// vectors come from the slot's Inputs/Outputs
			bs := argVal(callCommon(call), 1)
			okSrc := false
			switch v := bs.(type) {
			case *ssa.Call:
				okSrc = isDynField(v, "FDOperator", c.src)
			case *ssa.Extract:
				if cc, ok := v.Tuple.(*ssa.Call); ok {
					okSrc = isDynField(cc, "FDOperator", c.src) && v.Index == 0
				}
			}
			r.ob(key+":vectors", "the vectors handed to "+c.io.Name()+" are the ones operator."+c.src+" returned", fn, call, okSrc, "bs = operator."+c.src+"(...)", true)
		}
	}
}

// loopCarried: does the value depend on a phi placed in a loop header that encloses `inner`
// (i.e. is it carried from one iteration of that loop to the next)? Returns the header block.
func loopCarried(v ssa.Value, inner *ssa.BasicBlock, seen map[ssa.Value]bool, depth int) *ssa.BasicBlock {
	if v == nil || seen[v] || depth > 12 {
		return nil
	}
	seen[v] = true
	switch x := v.(type) {
	case *ssa.Phi:
		hb := x.Block()
		if hb.Dominates(inner) && hb != inner {
			// a header has a predecessor it dominates (back edge)
			for _, p := range hb.Preds {
				if hb.Dominates(p) {
					return hb
				}
			}
		}
		for _, e := range x.Edges {
			if h := loopCarried(e, inner, seen, depth+1); h != nil {
				return h
			}
		}
	case *ssa.BinOp:
		if h := loopCarried(x.X, inner, seen, depth+1); h != nil {
			return h
		}
		return loopCarried(x.Y, inner, seen, depth+1)
	case *ssa.Convert:
		return loopCarried(x.X, inner, seen, depth+1)
	}
	return nil
}
