package main

import (
	"fmt"
	"go/token"
	"go/types"
	"strings"

	"golang.org/x/tools/go/ssa"
)

func init() {
	register("C10",
		"Decides the structural premises of slot isolation: in the poller's dispatch function (epoll handler, kqueue Wait) every path from a successful token acquisition do() to the next iteration or return releases the token exactly once; no field of the fetched slot is read before the token is held and a nil slot is skipped; slots are spliced back into the free list (operatorCache.free) only by the poller loop after the dispatch of a batch has finished, the free list head is written only by alloc/free, and freeable() waits for the token, resets, then queues; connection-side uses of the slot (token, Control) are guarded by IsActive()==true, or run under the flushing lock (which the finalizer stops before freeing the slot), or are poller-invoked callbacks (token held), or belong to teardown/initialisation; Control reads the descriptor before inuse(). reset() clears every callback field of a slot; the once-rules of the callback runner (C05.R1/R2/R7) are re-evaluated here because a second finalizer run would free a re-used slot. Not decided: the residual check-then-act window between IsActive() and a concurrent close+reuse (needs a schedule), and the kernel delivering events for a reused fd number.",
		[]string{"sync/atomic is linearizable", "the poller calls the FDOperator callbacks only with the slot token held (checked here for the dispatch functions)"},
		func(r *Run) {
			cfgs := []string{"linux", "linux-race", "darwin"}
			if r.Tier == "thorough" {
				cfgs = []string{"linux", "linux-race", "darwin", "linux-arm64", "freebsd"}
			}
			for _, c := range cfgs {
				if r.useOpt(c) == nil {
					continue
				}
				c10(r)
			}
		})
}

// dispatchFn finds the poller's dispatch function: the one that fetches the slot with getOperator.
func dispatchFn(w *World) (*ssa.Function, *ssa.Call) {
	getOp := w.MustFn("(*defaultPoll).getOperator")
	var fn *ssa.Function
	var call *ssa.Call
	for _, site := range callSitesOf(w, getOp) {
		if fn != nil && site.Parent() != fn {
			broken("ANCHOR-LOST: getOperator is called from more than one function")
		}
		fn = site.Parent()
		if c, ok := site.(*ssa.Call); ok {
			call = c
		}
	}
	if fn == nil || call == nil {
		broken("ANCHOR-LOST config=%s: no call of getOperator (poller dispatch function)", w.Cfg.Name)
	}
	return fn, call
}

func c10(r *Run) {
	w := r.W
	ro := r.roles()
	px := protoEffects(w)
	disp, getCall := dispatchFn(w)
	slot := ssa.Value(getCall)

	isDo := func(i ssa.Instruction) bool { return isCall(i, ro.opDo) && recvVal(callCommon(i)) == slot }
	doCalls := findIns(disp, isDo)
	if len(doCalls) != 1 {
		r.absentf(" config=%s: %d do() calls on the fetched slot in %s", w.Cfg.Name, len(doCalls), w.FnName(disp))
	}
	doCall := doCalls[0]
	doOK := callResultAtom(ro.opDo, true)
	held := edgesEstablishing(disp, doOK)
	releases := func(i ssa.Instruction) bool {
		_, isC := i.(*ssa.Call)
		return isC && px.May(i, "tok.done")
	}
	mustRelease := func(i ssa.Instruction) bool {
		_, isC := i.(*ssa.Call)
		return isC && px.Must(i, "tok.done")
	}

	// ---- R1 token pairing -------------------------------------------------------------------------
	{
		ss := &Search{Fn: disp, Stop: mustRelease}
		wit := ss.Find(held, isIns(getCall), true) // reaching the next fetch or an exit still holding the token
		r.Visited += ss.Visited
		r.obW("C10.R1:token-released", "every path from a successful do() to the next event or to a return releases the slot token (done, or a helper that always does)", disp, doCall, wit, "done on every path")
		// at most once
		rel := findIns(disp, releases)
		if len(rel) < 3 {
			r.absentf(" config=%s: only %d token releases in the dispatch function", w.Cfg.Name, len(rel))
		}
		for i, x := range rel {
			ss := &Search{Fn: disp, Stop: isIns(getCall)}
			wit := ss.Find([]Start{After(x)}, releases, false)
			r.Visited += ss.Visited
			r.obW(fmt.Sprintf("C10.R1:token-released-once#%d", i+1), "after the token was released nothing releases it again before the next event is fetched (a second done() would release the next owner's token)", disp, x, wit, "no second release")
		}
		// the helper releases last: in appendHup, detach precedes done
		ah := w.MustFn("(*defaultPoll).appendHup")
		for _, d := range findIns(ah, func(i ssa.Instruction) bool { return isCall(i, ro.opDone) }) {
			r.neverReach("C10.R1:helper-releases-last", "the hang-up helper touches the slot only before it releases the token", ah, d, []Start{After(d)},
				func(i ssa.Instruction) bool { return usesSlotParam(i, ah) }, nil, nil, nil, "no slot access after done()")
		}
	}

	// ---- R2 no slot field before the token; nil slot skipped ---------------------------------------
	{
		nonNil := cmpAtom(func(v ssa.Value) bool { return v == slot }, isNilConst, neqRel)
		r.guarded("C10.R6:nil-slot-skipped", "a nil slot (race build: the fd->operator map has no entry any more) is skipped before do()", disp, doCall, nonNil, nil, "do() guarded by operator != nil")
		n := 0
		for _, ins := range allIns(disp) {
			var addr ssa.Value
			switch x := ins.(type) {
			case *ssa.UnOp:
				if x.Op == token.MUL {
					addr = x.X
				}
			case *ssa.Store:
				addr = x.Addr
			}
			fa, ok := addr.(*ssa.FieldAddr)
			if !ok || fa.X != slot {
				continue
			}
			n++
			_, fname, _, _ := fieldOf(fa)
			ss := &Search{Fn: disp, CutEdge: cutOn(doOK)}
			wit := ss.Find([]Start{After(getCall)}, isIns(ins), false)
			r.Visited += ss.Visited
			r.obW(fmt.Sprintf("C10.R2:field-under-token:%s#%d", fname, n), "a field of the fetched slot is accessed only while its token is held (the slot may be reset and reused by another connection otherwise)", disp, ins, wit, "guarded by do()==true")
		}
		if n < 5 {
			r.absentf(" config=%s: only %d slot field accesses in the dispatch function", w.Cfg.Name, n)
		}
		// helpers that get the slot are called under the token
		for _, ins := range allIns(disp) {
			c, ok := ins.(*ssa.Call)
			if !ok || ins == doCall || ins == ssa.Instruction(getCall) {
				continue
			}
			uses := false
			for _, a := range c.Call.Args {
				if a == slot {
					uses = true
				}
			}
			if !uses {
				continue
			}
			ss := &Search{Fn: disp, CutEdge: cutOn(doOK)}
			wit := ss.Find([]Start{After(getCall)}, isIns(ins), false)
			r.Visited += ss.Visited
			r.obW("C10.R2:helper-under-token:"+siteKey(w, ins), "the slot is handed to helpers only while its token is held", disp, ins, wit, "guarded by do()==true")
		}
	}

	// ---- R3 reuse only after the batch ------------------------------------------------------------
	{
		cacheFree := w.MustFn("(*operatorCache).free")
		cacheAlloc := w.MustFn("(*operatorCache).alloc")
		freeable := w.MustFn("(*operatorCache).freeable")
		waitFn := w.MustFn("(*defaultPoll).Wait")
		sites := callSitesOf(w, cacheFree)
		if len(sites) == 0 {
			r.ob("C10.R3:free-called", "the poller loop splices freed slots back", waitFn, nil, false, "operatorCache.free is never called", false)
		}
		for _, site := range sites {
			fn := site.Parent()
			r.ob("C10.R3:who-splices:"+w.FnName(fn), "freed slots are spliced back into the free list only by the poller's wait loop", fn, site, fn == waitFn, "caller "+w.FnName(fn), false)
			if fn != waitFn {
				continue
			}
			// after the dispatch of the batch: no dispatch work (callbacks / token ops on fetched slots) is
			// reachable from the splice without passing the next kernel wait
			isWaitSys := func(i ssa.Instruction) bool {
				f := calleeOf(i)
				if f == nil {
					return false
				}
				n := f.Name()
				return n == "EpollWait" || n == "epollWaitUntil" || (f.Pkg != nil && f.Pkg.Pkg.Path() == "syscall" && n == "Kevent")
			}
			if disp == waitFn {
				// kqueue: the dispatch loop is inline; the splice must come after the inner loop: no slot use reachable before the next Kevent
				r.neverReach("C10.R3:splice-after-batch", "slots are spliced back only when no fetched event of the batch is still to be dispatched", fn, site, []Start{After(site)},
					func(i ssa.Instruction) bool { return i == ssa.Instruction(getCall) }, isWaitSys, nil, nil, "next getOperator only after the next Kevent")
			} else {
				// epoll: Wait calls the handler through p.Handler; the splice follows that call
				isHandlerCall := func(i ssa.Instruction) bool {
					cc := callCommon(i)
					if cc == nil || cc.StaticCallee() != nil {
						return cc != nil && cc.StaticCallee() == disp
					}
					for _, k := range dynCallKinds(cc) {
						if k == "field:defaultPoll.Handler" {
							return true
						}
					}
					return false
				}
				r.precedes("C10.R3:splice-after-dispatch", "the splice comes after the handler has returned for this batch", fn, site, isHandlerCall, nil, "Handler(...) dominates opcache.free()")
				r.neverReach("C10.R3:splice-after-batch", "no dispatch happens between the splice and the next kernel wait", fn, site, []Start{After(site)}, isHandlerCall, isWaitSys, nil, nil, "next Handler call only after EpollWait")
				// Handler field is bound to the dispatch function
				bound := false
				for _, f := range w.Funcs {
					forEachIns(f, func(i ssa.Instruction) {
						if st, ok := i.(*ssa.Store); ok && isStoreToField(i, "defaultPoll", "Handler") {
							if mc := makeClosureFn(st.Val); mc != nil {
								// bound method closure: p.handler
								if strings.HasPrefix(mc.Name(), disp.Name()) {
									bound = true
								}
							}
						}
					})
				}
				r.ob("C10.R3:handler-bound", "defaultPoll.Handler is the dispatch function analysed here", fn, nil, bound, "poll.Handler = poll."+disp.Name(), false)
			}
		}
		// free list head writers
		for _, f := range w.Funcs {
			for _, ins := range findIns(f, func(i ssa.Instruction) bool { return isStoreToField(i, "operatorCache", "first") }) {
				r.ob("C10.R3:who-writes-first:"+w.FnName(f), "the free list head is written only by alloc and free", f, ins, f == cacheAlloc || f == cacheFree, "in "+w.FnName(f), false)
			}
			for _, ins := range findIns(f, func(i ssa.Instruction) bool { return isStoreToField(i, "operatorCache", "freelist") }) {
				r.ob("C10.R3:who-writes-freelist:"+w.FnName(f), "the pending-free list is written only by freeable and free", f, ins, f == freeable || f == cacheFree || w.FnName(f) == "newOperatorCache", "in "+w.FnName(f), false)
			}
		}
		// freeable: unused() -> reset() -> queue
		var un, rs, ap ssa.Instruction
		forEachIns(freeable, func(i ssa.Instruction) {
			switch {
			case isCall(i, ro.opUnused):
				un = i
			case isCall(i, ro.opReset):
				rs = i
			case isStoreToField(i, "operatorCache", "freelist"):
				ap = i
			}
		})
		ok := un != nil && rs != nil && ap != nil
		r.ob("C10.R3:freeable-steps", "freeable waits for the token (unused), resets the slot and queues it", freeable, nil, ok, "unused, reset, append present", false)
		if ok {
			r.precedes("C10.R3:freeable-waits-before-reset", "the slot is reset only after the token was obtained from any in-flight dispatch (unused() spins until do/done is over)", freeable, rs, isIns(un), nil, "unused() dominates reset()")
			r.precedes("C10.R3:freeable-reset-before-queue", "the slot is queued for reuse only after it was reset", freeable, ap, isIns(rs), nil, "reset() dominates the queueing")
		}
		// reset leaves nothing of the previous owner in the slot: every callback field is cleared (the dispatch function calls
		// whatever it finds there - a listener's OnRead left in a slot that a connection re-uses would get that connection's events)
		{
			st := w.NamedType("FDOperator").Underlying().(*types.Struct)
			for i := 0; i < st.NumFields(); i++ {
				f := st.Field(i)
				_, isFunc := f.Type().Underlying().(*types.Signature)
				// besides the callbacks: the owner's poller, descriptor and the detach once-guard (which must be re-armed for the next owner)
				if !isFunc && f.Name() != "poll" && f.Name() != "detached" && f.Name() != "FD" {
					continue
				}
				cleared := false
				forEachIns(ro.opReset, func(ins ssa.Instruction) {
					if stt, ok := ins.(*ssa.Store); ok && isStoreToField(ins, "FDOperator", f.Name()) {
						if isNilConst(stt.Val) {
							cleared = true
						} else if k, okc := constInt(stt.Val); okc && k == 0 {
							cleared = true
						}
					}
				})
				r.ob("C10.R3:reset-clears:"+f.Name(), "reset() clears every callback of the slot, its poller, its descriptor and its detach once-guard: the next owner installs only the callbacks it uses, the poller invokes whichever callbacks it finds, and a guard left at 1 would swallow the next owner's detach", ro.opReset, nil, cleared, "op."+f.Name()+" = zero value", false)
			}
		}
		// who calls freeable: Poll.Free only; who calls unused/reset
		for _, site := range callSitesOf(w, freeable) {
			fn := site.Parent()
			r.ob("C10.R3:who-queues:"+w.FnName(fn), "slots are queued for reuse only through Poll.Free", fn, site, w.FnName(fn) == "(*defaultPoll).Free", "caller "+w.FnName(fn), false)
		}
		for _, site := range callSitesOf(w, ro.opReset) {
			fn := site.Parent()
			r.ob("C10.R3:who-resets:"+w.FnName(fn), "a slot is reset only by freeable", fn, site, fn == freeable, "caller "+w.FnName(fn), false)
		}
		// alloc hands out a slot under the cache lock and unlinks it
		{
			lockFn, unlockFn := w.MustFn("lock"), w.MustFn("unlock")
			for _, f := range []*ssa.Function{cacheAlloc, cacheFree} {
				for _, ins := range findIns(f, func(i ssa.Instruction) bool { return isStoreToField(i, "operatorCache", "first") }) {
					ss := &Search{Fn: f, Stop: func(i ssa.Instruction) bool {
						return isCall(i, lockFn) && strings.HasSuffix(pathOf(callCommon(i).Args[0]), ".locked")
					}}
					wit := ss.Find(append([]Start{Entry(f)}, startsAfter(findIns(f, func(i ssa.Instruction) bool {
						return isCall(i, unlockFn) && strings.HasSuffix(pathOf(callCommon(i).Args[0]), ".locked")
					}))...), isIns(ins), false)
					r.Visited += ss.Visited
					r.obW("C10.R3:first-under-lock:"+siteKey(w, ins), "the free list head is modified only under the cache spin lock", f, ins, wit, "lock(&locked) held")
				}
			}
		}
	}

	// ---- R4 stale connection calls do not touch the slot ---------------------------------------
	if w.Cfg.Name == "linux" || w.Cfg.Name == "darwin" {
		c10ConnSide(r)
	}

	// ---- R7 the slot is given up before the descriptor number can be reused -----------------------
	if (w.Cfg.Name == "linux" || w.Cfg.Name == "darwin") && ro.finalizer != nil {
		fin := ro.finalizer
		netClose := w.MustFn("(*netFD).Close")
		for _, cs := range findIns(fin, func(i ssa.Instruction) bool { return isCall(i, netClose) }) {
			r.precedes("C10.R7:free-slot-before-close-fd", "the finalizer waits for and releases the poller slot (Free -> unused() spins on the token) before it closes the descriptor: while the poller may still dispatch an already fetched event through the slot, the descriptor number cannot be reused by another connection", fin, cs, func(i ssa.Instruction) bool { return isCall(i, ro.opFree) }, nil, "operator.Free() dominates netFD.Close()")
		}
	}

	if w.Cfg.Name == "linux" {
		// the registration is removed before the slot can be freed (C05.R12), and a queued hang-up carries the callback
		// captured under the token, never a pointer to the slot (C11.R1)
		r.borrow([]string{"C05.R12:detach-before-callbacks", "C05.R12:detach-after-lock"}, "C05.R12", "C10.R7", func() { c05(r) })
		// a second run of the finalizer would Free() a slot that may already belong to another connection: the once-rules of C05
		r.borrow([]string{"C05.R1:", "C05.R2:", "C05.R7:"}, "C05.R", "C10.R8.", func() { c05(r) })
		r.borrow([]string{"C11.R1:who-reads-onhup", "C11.R1:onhup-not-inline", "C11.R1:no-hangup-callback-on-the-poller-goroutine", "C11.R1:hups-run-async", "C11.R1:queue-before-release", "C11.R1:detach-before-release"}, "C11.R1", "C10.R1", func() { c11(r) })
		// premise of the "under the flushing lock" justification in R4
		r.borrow([]string{"C05.R8:stop-flushing-first:operator.Free"}, "C05.R8", "C10.R4", func() { c05(r) })
	}

	// ---- R5 Control reads FD before inuse() --------------------------------------------------------
	{
		ctl := w.MustFn("(*defaultPoll).Control")
		inuses := findIns(ctl, func(i ssa.Instruction) bool { return isCall(i, ro.opInuse) })
		if len(inuses) == 0 {
			r.ob("C10.R5:control-marks-inuse", "registering a slot marks it in use", ctl, nil, false, "no inuse() call", false)
		}
		isFDLoad := func(i ssa.Instruction) bool {
			u, ok := i.(*ssa.UnOp)
			if !ok || u.Op != token.MUL {
				return false
			}
			tn, f, base, ok := fieldOf(u.X)
			_, isParam := base.(*ssa.Parameter)
			return ok && tn == "FDOperator" && f == "FD" && isParam
		}
		for i, iu := range inuses {
			r.neverReach(fmt.Sprintf("C10.R5:fd-read-before-inuse#%d", i+1), "Control reads operator.FD only before inuse(): afterwards a concurrent freeable() may reset the slot", ctl, iu, []Start{After(iu)}, isFDLoad, nil, nil, nil, "no load of operator.FD after inuse()")
		}
	}
}

func usesSlotParam(i ssa.Instruction, fn *ssa.Function) bool {
	var buf [8]*ssa.Value
	for _, op := range i.Operands(buf[:0]) {
		if p, ok := (*op).(*ssa.Parameter); ok && p.Parent() == fn && isPointerToNamed(p.Type(), "FDOperator") {
			if _, isRet := i.(*ssa.Return); !isRet {
				return true
			}
		}
	}
	return false
}

// c10ConnSide: every use of c.operator's token / Control in connection methods is justified.
func c10ConnSide(r *Run) {
	w := r.W
	ro := r.roles()
	px := protoEffects(w)
	flush := w.MustFn("(*connection).flush")
	waitFlush := w.MustFn("(*connection).waitFlush")
	// functions the poller invokes with the token held: whatever initFDOperator stores into the slot's callback fields
	pollerFlow := map[*ssa.Function]string{}
	initOp := w.MustFn("(*connection).initFDOperator")
	forEachIns(initOp, func(i ssa.Instruction) {
		st, ok := i.(*ssa.Store)
		if !ok {
			return
		}
		tn, f, _, ok := fieldOf(st.Addr)
		if !ok || tn != "FDOperator" {
			return
		}
		if mf := makeClosureFn(st.Val); mf != nil {
			// bound method wrapper: find the underlying method by name
			name := strings.TrimSuffix(mf.Name(), "$bound")
			if m := w.Fn("(*connection)." + name); m != nil {
				pollerFlow[m] = f
			}
		}
	})
	if len(pollerFlow) < 4 {
		r.absentf(" C10: initFDOperator binds only %d connection callbacks", len(pollerFlow))
	}
	// close over callees reachable from the poller flow (same receiver, static calls), except OnHup which runs detached without the token
	inFlow := map[*ssa.Function]string{}
	var add func(f *ssa.Function, why string, d int)
	add = func(f *ssa.Function, why string, d int) {
		if _, ok := inFlow[f]; ok || d > 3 {
			return
		}
		inFlow[f] = why
		forEachIns(f, func(i ssa.Instruction) {
			if c, ok := i.(*ssa.Call); ok {
				if cal := c.Call.StaticCallee(); cal != nil && cal.Signature.Recv() != nil && isPointerToNamed(cal.Signature.Recv().Type(), "connection") {
					add(cal, why, d+1)
				}
			}
		})
	}
	for f, field := range pollerFlow {
		if field == "OnHup" {
			continue
		}
		add(f, "poller callback "+field+" (token held by the dispatch function)", 0)
	}
	teardown := map[string]string{
		"(*connection).closeCallback": "teardown: runs before the finalizer frees the slot, under the processing lock",
		"(*connection).register":      "initialisation: the connection is not yet visible to other goroutines",
	}
	n := 0
	for _, fn := range w.Funcs {
		if fn.Signature.Recv() == nil || !isPointerToNamed(fn.Signature.Recv().Type(), "connection") {
			if fn != ro.finalizer {
				continue
			}
		}
		for _, site := range findIns(fn, func(i ssa.Instruction) bool {
			cc := callCommon(i)
			if cc == nil {
				return false
			}
			f := cc.StaticCallee()
			if f != ro.opDo && f != ro.opDone && f != ro.opControl && f != ro.opFree {
				return false
			}
			return strings.HasSuffix(pathOf(recvVal(cc)), ".operator")
		}) {
			n++
			key := "C10.R4:" + siteKey(w, site)
			rule := "a connection uses its poller slot (token / Control) only where it still owns it: guarded by IsActive(), under the flushing lock, inside a poller-invoked callback, or during initialisation / teardown"
			name := w.FnName(fn)
			switch {
			case fn == ro.finalizer:
				r.ob(key, rule, fn, site, true, "finalizer: the point where the slot is given up", false)
			case teardown[name] != "":
				r.ob(key, rule, fn, site, true, teardown[name], false)
			case inFlow[fn] != "":
				r.ob(key, rule, fn, site, true, inFlow[fn], false)
			case fn == flush || fn == waitFlush:
				// justified by the flushing lock: every caller chain holds it (C08.R1) and the finalizer stops it before Free (C05.R8)
				ok := true
				for _, cs := range callSitesOf(w, fn) {
					caller := cs.Parent()
					if caller == flush {
						continue
					}
					if px.heldWitness(caller, cs, ro.kFlushing, false, nil) != nil {
						ok = false
					}
				}
				r.ob(key, rule, fn, site, ok, "under the flushing lock, which the finalizer stops before freeing the slot", true)
			default:
				if calleeOf(site) == ro.opDone {
					// a release is justified by the acquisition it pairs with
					doOK := callResultAtom(ro.opDo, true)
					r.guarded(key, rule, fn, site, doOK, nil, "pairs with a guarded do()")
					continue
				}
				r.guarded(key, rule, fn, site, activeFact(ro), nil, "guarded by IsActive()==true")
			}
		}
	}
	if n < 5 {
		r.absentf(" C10: only %d connection-side slot uses", n)
	}
	// Release(): the token it takes is released on every path, and the buffer walk happens under it
	rel := w.MustFn("(*connection).Release")
	held := edgesEstablishing(rel, callResultAtom(ro.opDo, true))
	if len(held) > 0 {
		r.mustPass("C10.R4:Release-returns-token", "Release gives the slot token back on every path (a kept token silences the connection for ever)", rel, nil, held, func(i ssa.Instruction) bool { return isCallOrDefer(i, ro.opDone) }, nil, nil, "done() on every path")
		for _, site := range findIns(rel, func(i ssa.Instruction) bool {
			m, ok := callOnField(i, "connection", "inputBuffer")
			return ok && (m == "resetTail" || m == "calcMaxSize")
		}) {
			ss := &Search{Fn: rel, CutEdge: cutOn(callResultAtom(ro.opDo, true))}
			starts := append([]Start{Entry(rel)}, startsAfter(findIns(rel, func(i ssa.Instruction) bool { return isCall(i, ro.opDone) }))...)
			wit := ss.Find(starts, isIns(site), false)
			r.Visited += ss.Visited
			r.obW("C10.R4:tail-reset-under-token:"+siteKey(w, site), "the input buffer's tail is inspected/reset by the reader only while it holds the slot token (the poller writes the tail under the same token)", rel, site, wit, "Held(token)")
		}
	}
}
