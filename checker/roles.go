package main

import (
	"go/token"
	"go/types"
	"strings"

	"golang.org/x/tools/go/ssa"
)

// Roles resolves the repository's protocol primitives in one configuration.
type Roles struct {
	w *World

	// key locks (connection_lock.go)
	lock, unlock, stop, status, force, closeBy, isCloseBy, isUnlock *ssa.Function
	kClosing, kConnecting, kProcessing, kFlushing                   int64
	whoNone, whoUser, whoPoller                                     int64

	isActive *ssa.Function

	// slot token (fd_operator.go)
	opDo, opDone, opInuse, opUnused, opControl, opFree, opReset, opIsUnused *ssa.Function
	evReadable, evWritable, evDetach, evR2RW, evRW2R                        int64

	// connection flow
	closeCallback, onClose, onHup, onProcess, onRequestM, onConnectM, onDisconnectM *ssa.Function
	task, taskPanic                                                                 *ssa.Function
	absent                                                                          []string
	finalizer                                                                       *ssa.Function
	triggerRead, triggerWrite                                                       *ssa.Function
}

var rolesCache = map[*World]*Roles{}

func rolesOf(w *World) *Roles {
	if r, ok := rolesCache[w]; ok {
		return r
	}
	r := &Roles{w: w}
	r.lock = w.MustFn("(*locker).lock")
	r.unlock = w.MustFn("(*locker).unlock")
	r.stop = w.MustFn("(*locker).stop")
	r.status = w.MustFn("(*locker).status")
	r.force = w.MustFn("(*locker).force")
	r.closeBy = w.MustFn("(*locker).closeBy")
	r.isCloseBy = w.MustFn("(*locker).isCloseBy")
	r.isUnlock = w.MustFn("(*locker).isUnlock")
	r.kClosing = w.ConstInt("closing")
	r.kConnecting = w.ConstInt("connecting")
	r.kProcessing = w.ConstInt("processing")
	r.kFlushing = w.ConstInt("flushing")
	r.whoNone = w.ConstInt("none")
	r.whoUser = w.ConstInt("user")
	r.whoPoller = w.ConstInt("poller")
	r.isActive = w.MustFn("(*connection).IsActive")

	r.opDo = w.MustFn("(*FDOperator).do")
	r.opDone = w.MustFn("(*FDOperator).done")
	r.opInuse = w.MustFn("(*FDOperator).inuse")
	r.opUnused = w.MustFn("(*FDOperator).unused")
	r.opControl = w.MustFn("(*FDOperator).Control")
	r.opFree = w.MustFn("(*FDOperator).Free")
	r.opReset = w.MustFn("(*FDOperator).reset")
	r.opIsUnused = w.MustFn("(*FDOperator).isUnused")
	r.evReadable = w.ConstInt("PollReadable")
	r.evWritable = w.ConstInt("PollWritable")
	r.evDetach = w.ConstInt("PollDetach")
	r.evR2RW = w.ConstInt("PollR2RW")
	r.evRW2R = w.ConstInt("PollRW2R")

	r.closeCallback = w.MustFn("(*connection).closeCallback")
	r.onClose = w.MustFn("(*connection).onClose")
	r.onHup = w.MustFn("(*connection).onHup")
	r.onProcess = w.MustFn("(*connection).onProcess")
	r.onRequestM = w.MustFn("(*connection).onRequest")
	r.onConnectM = w.MustFn("(*connection).onConnect")
	r.onDisconnectM = w.MustFn("(*connection).onDisconnect")
	r.triggerRead = w.MustFn("(*connection).triggerRead")
	r.triggerWrite = w.MustFn("(*connection).triggerWrite")

	// handler task: the closure handed to runner.RunTask by the function that trylocks `processing`
	r.task = closureArgOfDynCall(r.onProcess, "global:runner.RunTask", 1)
	if r.task == nil {
		r.absent = append(r.absent, "onProcess no longer hands a task closure to runner.RunTask")
		rolesCache[w] = r
		return r
	}
	// its panic path: the deferred closure
	forEachIns(r.task, func(ins ssa.Instruction) {
		if d, ok := ins.(*ssa.Defer); ok && r.taskPanic == nil {
			if f := makeClosureFn(d.Call.Value); f != nil {
				r.taskPanic = f
			} else if f := d.Call.StaticCallee(); f != nil && f.Blocks != nil && isModulePkg(f.Pkg.Pkg) {
				r.taskPanic = f // the panic path written as a named function / method
			}
		}
	})
	if r.taskPanic == nil {
		r.absent = append(r.absent, "the handler task no longer defers a panic path")
		rolesCache[w] = r
		return r
	}
	// finalizer: the CloseCallback closure that calls FDOperator.Free
	for _, fn := range w.Funcs {
		// a closure, or a named function/method used as the callback: CloseCallback-shaped and frees the slot
		if namedSigIs(fn, "Connection") && callsFn(fn, r.opFree) && !strings.HasSuffix(fn.Name(), "$bound") {
			r.finalizer = fn
		}
	}
	if r.finalizer == nil {
		r.absent = append(r.absent, "no close callback that frees the poller slot (the connection finalizer) is registered")
	}
	rolesCache[w] = r
	return r
}

// namedSigIs: fn has signature func(<name>) error  (a CloseCallback-shaped closure).
func namedSigIs(fn *ssa.Function, param string) bool {
	sig := fn.Signature
	if sig.Params().Len() != 1 || sig.Results().Len() != 1 {
		return false
	}
	return namedTypeName(sig.Params().At(0).Type()) == param
}

func callsFn(fn, callee *ssa.Function) bool {
	found := false
	forEachIns(fn, func(ins ssa.Instruction) {
		if isCallOrDefer(ins, callee) {
			found = true
		}
	})
	return found
}

// closureArgOfDynCall finds, in fn, a call whose dynamic kind matches and returns the closure
// passed as argument idx.
func closureArgOfDynCall(fn *ssa.Function, kind string, idx int) *ssa.Function {
	var out *ssa.Function
	forEachIns(fn, func(ins ssa.Instruction) {
		cc := callCommon(ins)
		if cc == nil || cc.StaticCallee() != nil {
			return
		}
		for _, k := range dynCallKinds(cc) {
			if k == kind && idx < len(cc.Args) {
				if f := makeClosureFn(cc.Args[idx]); f != nil {
					out = f
				}
			}
		}
	})
	return out
}

// isKeyCall: ins is a call (or defer) of the key-lock method m with constant key k.
func isKeyCall(ins ssa.Instruction, m *ssa.Function, k int64) bool {
	if !isCallOrDefer(ins, m) {
		return false
	}
	n, ok := argConst(callCommon(ins), 0)
	return ok && n == k
}

// isControl: ins calls (*FDOperator).Control with the constant event ev.
func (r *Roles) isControl(ins ssa.Instruction, ev int64) bool {
	if !isCallOrDefer(ins, r.opControl) {
		return false
	}
	n, ok := argConst(callCommon(ins), 0)
	return ok && n == ev
}

// isCloseCallbackCall: call of closeCallback; needLock reports the constant first argument
// (ok=false when it is not a constant).
func (r *Roles) closeCallbackCall(ins ssa.Instruction) (needLock bool, constLock bool, is bool) {
	if !isCall(ins, r.closeCallback) {
		return false, false, false
	}
	n, ok := argConst(callCommon(ins), 0)
	return n == 1, ok, true
}

// userCallbackKind: ins is a dynamic call of a value whose named type is one of the public
// callback types.
func userCallbackKind(ins ssa.Instruction) string {
	cc := callCommon(ins)
	if cc == nil || cc.StaticCallee() != nil || cc.IsInvoke() {
		return ""
	}
	n := namedTypeName(cc.Value.Type())
	switch n {
	case "OnRequest", "OnConnect", "OnDisconnect", "OnPrepare", "CloseCallback":
		return n
	}
	return ""
}

// atomicOp describes a sync/atomic call: op in {Load, Store, Add, CompareAndSwap, Swap}, and the
// addressed storage.
type atomicOp struct {
	Op   string
	Addr ssa.Value
	Args []ssa.Value
}

func asAtomic(ins ssa.Instruction) *atomicOp {
	cc := callCommon(ins)
	if cc == nil {
		return nil
	}
	f := cc.StaticCallee()
	if f == nil || f.Pkg == nil || f.Pkg.Pkg.Path() != "sync/atomic" {
		return nil
	}
	name := f.Name()
	for _, op := range []string{"CompareAndSwap", "Load", "Store", "Add", "Swap"} {
		if strings.HasPrefix(name, op) {
			if f.Signature.Recv() != nil {
				// atomic.Value / atomic.Int32 methods: receiver is the address
				return &atomicOp{Op: op, Addr: cc.Args[0], Args: cc.Args[1:]}
			}
			if len(cc.Args) == 0 {
				return nil
			}
			return &atomicOp{Op: op, Addr: cc.Args[0], Args: cc.Args[1:]}
		}
	}
	return nil
}

// structFieldOfAddr: for an address value &x.f (possibly &x.f[i]) report "Type.field".
func structFieldOfAddr(v ssa.Value) string {
	for {
		switch x := v.(type) {
		case *ssa.IndexAddr:
			v = x.X
			continue
		case *ssa.FieldAddr:
			tn, fn, _, _ := fieldOf(x)
			return tn + "." + fn
		case *ssa.UnOp:
			if x.Op == token.MUL {
				v = x.X
				continue
			}
		}
		return ""
	}
}

func isPointerToNamed(t types.Type, name string) bool {
	p, ok := t.Underlying().(*types.Pointer)
	if !ok {
		return false
	}
	return namedTypeName(p.Elem()) == name
}
