package main

import (
	"fmt"
	"go/token"
	"go/types"
	"sort"
	"strings"

	"golang.org/x/tools/go/ssa"
)

func init() {
	register("C15",
		"Decides the structural premises of 'every descriptor closed exactly once, and no other': close(2) is issued only from the frozen set of owner functions (census; a new caller is reported); a number borrowed from an *os.File (listener.fd = file.Fd()) is never closed raw when the file exists - the file closes it - and the file is closed when it exists; the connection descriptor is closed under the close-once counter, never when detaching and never for numbers <= 2; after a descriptor was created every error exit closes it exactly once (sysSocket, socket, openDefaultPoll); the poller's exit closes both of its descriptors; surplus pollers are closed when the pool shrinks. A pool growth that fails half way closes the pollers it opened (F18); ConvertListener never closes the caller's listener; the shrink loop closes elements of the installed pool (C18.R3). Not decided: the descriptor table at run time, closes done by the standard library.",
		[]string{"(*os.File).Close closes the descriptor returned by Fd() exactly once"},
		func(r *Run) {
			cfgs := []string{"linux"}
			if r.Tier == "thorough" {
				cfgs = []string{"linux", "linux-race", "darwin", "linux-arm64", "freebsd"}
			}
			for _, c := range cfgs {
				if r.useOpt(c) == nil {
					continue
				}
				c15(r)
			}
		})
}

func c15(r *Run) {
	w := r.W
	ro := r.roles()
	linux := w.Cfg.GOOS == "linux"
	disp, _ := dispatchFn(w)

	// ---- R1 census ---------------------------------------------------------------------------------
	owners := map[string]string{
		"(*netFD).Close":    "the connection / dial descriptor, under the close-once counter",
		"(*listener).Close": "the listener's duplicate descriptor when no os.File owns it",
		"socket":            "descriptor of a dial whose socket options failed",
		"sysSocket":         "descriptor whose SetNonblock failed",
		"openDefaultPoll":   "poller descriptors on a failed open",
	}
	if linux {
		owners[w.FnName(disp)] = "poller exit on the close message: eventfd and epoll fd"
	} else {
		owners["(*defaultPoll).Close"] = "kqueue descriptor"
	}
	found := map[string]int{}
	sites := map[string]int{}
	for _, f := range w.Funcs {
		for _, ins := range findIns(f, isSysCall("Close")) {
			name := w.FnName(f)
			sites[name]++
			// a private helper that is only ever called from one owner is part of that owner
			owner, ok := w.OwnerOf(f, func(n string) bool { _, is := owners[n]; return is })
			if ok {
				found[owner]++
			}
			r.ob(fmt.Sprintf("C15.R1:close-site:%s#%d", name, sites[name]), "close(2) is issued only by the functions that own a descriptor, or by a private helper called from one owner only (frozen census; a new raw close must be justified)", f, ins, ok, owners[owner], false)
		}
	}
	var names []string
	for n := range owners {
		names = append(names, n)
	}
	sort.Strings(names)
	for _, n := range names {
		r.ob("C15.R1:owner-closes:"+n, "each owner still closes its descriptor", w.Fn(n), nil, found[n] > 0, fmt.Sprintf("%d close sites", found[n]), false)
	}

	// the connection's descriptor: netFD.Close is reached only from the connection's finalizer (last close callback) and
	// from the dial paths that still own the descriptor; nobody closes it through the Conn interface
	{
		nfClose := w.MustFn("(*netFD).Close")
		closers := map[string]string{
			"(*connection).initFinalizer$1": "the finalizer: the last close callback, after the server untracked the number",
			"socket":                        "a dial whose connect failed, before any connection exists",
			"(*sysDialer).dialTCP":          "a self-connected / spurious dial that is retried, before any connection exists",
		}
		n := map[string]int{}
		for _, f := range w.Funcs {
			for _, ins := range findIns(f, func(i ssa.Instruction) bool {
				if isCallOrDefer(i, nfClose) {
					return true
				}
				cc := callCommon(i)
				return cc != nil && cc.IsInvoke() && cc.Method.Name() == "Close" && namedTypeName(cc.Value.Type()) == "Conn"
			}) {
				name := w.FnName(f)
				if f.Parent() != nil && w.FnName(f.Parent()) == "(*connection).initFinalizer" {
					name = "(*connection).initFinalizer$1"
				}
				n[name]++
				_, ok := closers[name]
				r.ob(fmt.Sprintf("C15.R1:connection-descriptor-closed-by:%s#%d", name, n[name]), "a connection's descriptor is closed through its netFD only by the finalizer (which runs after every other close callback, so the server has untracked the number before it can be reused) and by dial paths that have not built a connection yet; the accept path, the callback runner and everyone else go through connection.Close (frozen census)", f, ins, ok, closers[name], false)
			}
		}
		for _, name := range []string{"(*connection).initFinalizer$1", "(*sysDialer).dialTCP", "socket"} {
			r.ob("C15.R1:connection-descriptor-closer-present:"+name, "each of these still closes its descriptor", nil, nil, n[name] > 0, fmt.Sprintf("%d sites", n[name]), false)
		}
	}

	// ---- R2 borrowed number -----------------------------------------------------------------------
	{
		lc := w.MustFn("(*listener).Close")
		parse := w.MustFn("(*listener).parseFD")
		// premise: listener.fd is written only from file.Fd()
		prem := true
		nSt := 0
		for _, f := range w.Funcs {
			for _, ins := range findIns(f, func(i ssa.Instruction) bool { return isStoreToField(i, "listener", "fd") }) {
				nSt++
				st := ins.(*ssa.Store)
				v := st.Val
				for {
					if c, ok := v.(*ssa.Convert); ok {
						v = c.X
						continue
					}
					break
				}
				c, ok := v.(*ssa.Call)
				isFd := ok && c.Call.StaticCallee() != nil && c.Call.StaticCallee().Name() == "Fd" && c.Call.StaticCallee().Pkg != nil && c.Call.StaticCallee().Pkg.Pkg.Path() == "os"
				if !(isFd && f == parse) {
					prem = false
				}
			}
		}
		r.Notes = append(r.Notes, fmt.Sprintf("C15.R2 premise: listener.fd is only ever file.Fd() (%d stores, all in parseFD) = %v", nSt, prem))
		fileNil := cmpAtom(func(v ssa.Value) bool { _, ok := loadOfField(v, "listener", "file"); return ok }, isNilConst, eqRel)
		fileSet := cmpAtom(func(v ssa.Value) bool { _, ok := loadOfField(v, "listener", "file"); return ok }, isNilConst, neqRel)
		raw := findIns(lc, func(i ssa.Instruction) bool {
			return isSysCall("Close")(i) && strings.HasSuffix(pathOf(callCommon(i).Args[0]), ".fd")
		})
		for i, site := range raw {
			if prem {
				r.guarded(fmt.Sprintf("C15.R2:(*listener).Close:raw-close-of-file-fd#%d", i+1), "listener.fd is the number owned by listener.file (fd = file.Fd()): it is closed raw only when there is no file; otherwise the os.File closes it, once", lc, site, fileNil, nil, "guarded by ln.file == nil")
			} else {
				r.ob(fmt.Sprintf("C15.R2:(*listener).Close:raw-close-of-file-fd#%d", i+1), "listener.fd ownership", lc, site, true, "premise changed: fd is no longer always file.Fd(); rule not applicable", false)
			}
		}
		isFileClose := func(i ssa.Instruction) bool {
			f := calleeOf(i)
			return f != nil && f.Name() == "Close" && f.Pkg != nil && f.Pkg.Pkg.Path() == "os"
		}
		r.mustPass("C15.R2:listener-file-closed", "when the listener holds an os.File it is closed (closing the duplicate descriptor)", lc, nil, edgesEstablishing(lc, fileSet), isFileClose, nil, nil, "file.Close() on every path from file != nil")
		// ... and Close gets there on every path: nothing (a failing Close of the wrapped listener, say) returns before the
		// duplicate was dealt with
		{
			noFd := cmpAtom(func(v ssa.Value) bool { _, ok := loadOfField(v, "listener", "fd"); return ok }, isConstEq(0), eqRel)
			isRaw := func(i ssa.Instruction) bool {
				return isSysCall("Close")(i) && strings.HasSuffix(pathOf(callCommon(i).Args[0]), ".fd")
			}
			ss := &Search{Fn: lc, Stop: func(i ssa.Instruction) bool { return isFileClose(i) || isRaw(i) }, CutEdge: cutOn(noFd)}
			wit := ss.Find([]Start{Entry(lc)}, nil, true)
			r.Visited += ss.Visited
			r.obW("C15.R2:listener-close-always-reaches-the-duplicate", "every path through listener.Close closes netpoll's duplicate of the listening descriptor (through its os.File, or raw) unless there is none: an early return - e.g. because closing the caller's net.Listener failed, which it does when the application closed it first - would leave the port listening", lc, nil, wit, "file.Close() / close(fd) on every path (or fd == 0)")
		}
		// the wrapped net.Listener is closed too
		r.mustPass("C15.R2:wrapped-listener-closed", "the wrapped net.Listener (the original descriptor) is closed when present", lc, nil,
			edgesEstablishing(lc, cmpAtom(func(v ssa.Value) bool { _, ok := loadOfField(v, "listener", "ln"); return ok }, isNilConst, neqRel)),
			func(i ssa.Instruction) bool {
				cc := callCommon(i)
				return cc != nil && cc.IsInvoke() && cc.Method.Name() == "Close"
			}, nil, nil, "ln.ln.Close() on every path from ln != nil")
		// a descriptor is closed one way or the other: raw close and file close never both on a path
		for _, site := range raw {
			r.neverReach("C15.R2:not-both-ways", "the listener's descriptor is not closed both raw and through its file", lc, site, []Start{After(site)}, isFileClose, nil, nil, nil, "no file.Close() after the raw close")
			for _, fcl := range findIns(lc, isFileClose) {
				r.neverReach("C15.R2:not-both-ways-rev", "the listener's descriptor is not closed both through its file and raw", lc, fcl, []Start{After(fcl)}, isIns(site), nil, nil, nil, "no raw close after file.Close()")
			}
		}
	}

	// the fields that decide how the listener's descriptor is closed are set once, by parseFD
	for _, f := range w.Funcs {
		for _, field := range []string{"file", "fd"} {
			for _, ins := range findIns(f, func(i ssa.Instruction) bool { return isStoreToField(i, "listener", field) }) {
				ok := w.FnName(f) == "(*listener).parseFD"
				r.ob("C15.R2:who-writes-listener."+field+":"+w.FnName(f), "listener."+field+" is written only when the listener is built (parseFD): Close does not rewrite the fields its own guard reads, so a second Close takes the same - idempotent - branch and never falls back to a raw close of a stale number", f, ins, ok, "in "+w.FnName(f), false)
			}
		}
	}
	// detaching is monotone: once the descriptor was handed to the caller netpoll never closes it
	for _, f := range w.Funcs {
		for _, ins := range findIns(f, func(i ssa.Instruction) bool {
			if isStoreToField(i, "netFD", "detaching") {
				return true
			}
			a := asAtomic(i)
			return a != nil && a.Op != "Load" && structFieldOfAddr(a.Addr) == "netFD.detaching"
		}) {
			r.ob("C15.R4:detaching-monotone:"+w.FnName(f), "netFD.detaching is only ever set to true: the close callbacks may run later (deferred to the handler task) and must still see the descriptor as handed over", f, ins, isDetachMark(ins), "detaching is set (never cleared)", false)
		}
	}

	// ---- R3 once-guards and pairing ---------------------------------------------------------------
	c05OnceGuards(r, ro, &Search{})
	{
		nf := w.MustFn("(*netFD).Close")
		for i, site := range findIns(nf, isSysCall("Close")) {
			fdGT2 := cmpAtom(func(v ssa.Value) bool { _, ok := loadOfField(v, "netFD", "fd"); return ok }, isConstEq(2), gtRel)
			r.guarded(fmt.Sprintf("C15.R4:never-std-streams#%d", i+1), "an adopted descriptor <= 2 (stdin/out/err, or the zero value) is never closed", nf, site, fdGT2, nil, "guarded by fd > 2")
		}
	}
	{
		// sysSocket / socket error exits (shared shape with C14.R1)
		fn := w.MustFn("sysSocket")
		socks := findIns(fn, isSysCall("Socket"))
		if len(socks) == 1 {
			created := cmpAtom(errOfCall(socks[0].(ssa.Value), 1), isNilConst, eqRel)
			r.noLeakOnError("C15.R3:sysSocket-error-exit", "after syscall.Socket succeeded every error return closes the descriptor", fn, socks[0], edgesEstablishing(fn, created), isSysCall("Close"), nil)
		}
		fn = w.MustFn("socket")
		netClose := w.MustFn("(*netFD).Close")
		ss := findIns(fn, func(i ssa.Instruction) bool { return isCall(i, w.MustFn("sysSocket")) })
		if len(ss) == 1 {
			created := cmpAtom(errOfCall(ss[0].(ssa.Value), 1), isNilConst, eqRel)
			r.noLeakOnError("C15.R3:socket-error-exit", "after sysSocket succeeded every error return of socket() closes the descriptor", fn, ss[0], edgesEstablishing(fn, created),
				anyOf(isSysCall("Close"), func(i ssa.Instruction) bool { return isCall(i, netClose) }), nil)
		}
	}
	{
		fn := w.MustFn("openDefaultPoll")
		if linux {
			ec := findIns(fn, func(i ssa.Instruction) bool { f := calleeOf(i); return f != nil && f.Name() == "EpollCreate" })
			if len(ec) != 1 {
				r.absentf(" C15: %d EpollCreate calls in openDefaultPoll", len(ec))
			}
			created := cmpAtom(errOfCall(ec[0].(ssa.Value), 1), isNilConst, eqRel)
			closeOf := func(suffix string) func(ssa.Instruction) bool {
				return func(i ssa.Instruction) bool {
					return isSysCall("Close")(i) && strings.HasSuffix(pathOf(callCommon(i).Args[0]), suffix)
				}
			}
			r.noLeakOnError("C15.R3:openPoll-epollfd", "once the epoll descriptor exists every error return of openDefaultPoll closes it", fn, ec[0], edgesEstablishing(fn, created), closeOf(".fd"), nil)
			// eventfd: created when e0 == 0
			sc := findIns(fn, func(i ssa.Instruction) bool { f := calleeOf(i); return f != nil && f.Name() == "Syscall" })
			if len(sc) == 1 {
				okEv := cmpAtom(errOfCall(sc[0].(ssa.Value), 2), isConstEq(0), eqRel)
				r.noLeakOnError("C15.R3:openPoll-eventfd", "once the eventfd exists every error return of openDefaultPoll closes it", fn, sc[0], edgesEstablishing(fn, okEv), closeOf(".wop.FD"), nil)
			} else {
				r.ob("C15.R3:openPoll-eventfd", "openDefaultPoll creates the wake-up eventfd", fn, nil, false, fmt.Sprintf("%d raw syscalls", len(sc)), false)
			}
		} else {
			kq := findIns(fn, isSysCall("Kqueue"))
			if len(kq) == 1 {
				created := cmpAtom(errOfCall(kq[0].(ssa.Value), 1), isNilConst, eqRel)
				r.noLeakOnError("C15.R3:openPoll-kqueue", "once the kqueue exists every error return of openDefaultPoll closes it", fn, kq[0], edgesEstablishing(fn, created), isSysCall("Close"), nil)
			}
		}
	}
	// the descriptor is closed by the finalizer, which always runs once the callbacks run (C05.R11)
	r.borrow([]string{"C05.R11:runner-completes", "C05.R5:walk-is-complete", "C05.R8:finalizer-complete:netFD.Close", "C05.R7:panic-path-closes"}, "C05.R", "C15.R3.teardown.", func() { c05(r) })
	// once a netFD was handed to a connection (init copies it, register() closes it on failure) the dial path does not
	// close it again through its own copy
	for _, name := range []string{"(*sysDialer).dialTCP", "(*sysDialer).dialUnix"} {
		fn := w.MustFn(name)
		for _, ctorName := range []string{"newTCPConnection", "newUnixConnection"} {
			ctor := w.MustFn(ctorName)
			for _, site := range findIns(fn, func(i ssa.Instruction) bool { return isCall(i, ctor) }) {
				arg := callCommon(site).Args[0]
				if mi, ok := arg.(*ssa.MakeInterface); ok {
					arg = mi.X
				}
				r.neverReach("C15.R3:ownership-transferred:"+siteKey(w, site), "after the netFD was handed to the connection constructor the dialer never closes it through its own copy (the connection owns the descriptor; a failed registration already closed it)", fn, site, []Start{After(site)},
					func(i ssa.Instruction) bool {
						if !isCall(i, w.MustFn("(*netFD).Close")) {
							return false
						}
						return callCommon(i).Args[0] == arg
					}, nil, nil, nil, "no netFD.Close on the handed-over value")
			}
		}
	}
	// descriptors of failed / abandoned dials (shared with C14.R1, C14.R4)
	r.borrow([]string{"C14.R1:", "C14.R4:established-is-returned"}, "C14.R", "C15.R3.dial", func() { c14(r) })
	// the poller's exit: the close message is recognised and both descriptors are closed (C11.R6); the server handle, which
	// owns the listener's duplicate, is dropped only by the Shutdown that closes it (C13.R6)
	if linux {
		r.borrow([]string{"C11.R6:close-closes-eventfd", "C11.R6:close-closes-epollfd", "C11.R6:wait-returns-on-close"}, "C11.R6", "C15.R6", func() { c11(r) })
	}
	r.borrow([]string{"C13.R6:server-handle"}, "C13.R6", "C15.R7", func() { c13(r) })

	// a conversion that fails has adopted nothing: the caller's net.Listener is still the caller's and stays open
	{
		cv := w.MustFn("ConvertListener")
		lnClose := w.MustFn("(*listener).Close")
		var bad ssa.Instruction
		forEachIns(cv, func(i ssa.Instruction) {
			if isCallOrDefer(i, lnClose) {
				bad = i
			}
			if cc := callCommon(i); cc != nil && cc.IsInvoke() && cc.Method.Name() == "Close" && namedTypeName(cc.Value.Type()) == "Listener" {
				bad = i
			}
		})
		r.ob("C15.R2:failed-conversion-closes-nothing-of-the-callers", "ConvertListener never closes the net.Listener it was handed (nor the wrapper that holds only that listener): when the conversion fails netpoll has adopted nothing, the listener is still the caller's", cv, bad, bad == nil, "no Close of the wrapped listener in ConvertListener", false)
	}

	// ---- R5 pool shrink / failed run close pollers ------------------------------------------------
	{
		run := w.MustFn("(*manager).Run")
		isPollClose := func(i ssa.Instruction) bool {
			cc := callCommon(i)
			return cc != nil && cc.IsInvoke() && cc.Method.Name() == "Close" && namedTypeName(cc.Value.Type()) == "Poll"
		}
		shrink := func(v ssa.Value) (bool, bool) {
			b, ok := v.(*ssa.BinOp)
			if !ok || b.Op != token.LSS {
				return false, false
			}
			// numLoops < len(m.polls)
			if c, ok := b.Y.(*ssa.Call); ok {
				if bi, ok := c.Call.Value.(*ssa.Builtin); ok && bi.Name() == "len" && strings.HasSuffix(pathOf(c.Call.Args[0]), ".polls") {
					if _, isIdx := b.X.(*ssa.Phi); !isIdx {
						return true, true
					}
				}
			}
			return false, false
		}
		starts := edgesEstablishing(run, shrink)
		if len(starts) == 0 {
			r.ob("C15.R5:shrink-closes-surplus", "Run has a shrink branch", run, nil, false, "no numLoops < len(polls) branch", false)
		} else {
			ss := &Search{Fn: run}
			reach := ss.Find(starts, isPollClose, false)
			r.Visited += ss.Visited
			r.ob("C15.R5:shrink-closes-surplus", "when the pool shrinks the surplus pollers are closed (their descriptors are released by their loops)", run, nil, reach != nil, "poll.Close() reachable in the shrink branch", true)
		}
		// a growth that fails half way closes the pollers it had already opened: they are only in the local slice, which
		// the deferred m.Close() (it walks the old m.polls) cannot reach
		{
			openPoll := w.MustFn("openPoll")
			var opens []ssa.Instruction
			forEachIns(run, func(i ssa.Instruction) {
				if isCall(i, openPoll) {
					opens = append(opens, i)
				}
			})
			isNewPollClose := func(i ssa.Instruction) bool {
				if !isPollClose(i) {
					return false
				}
				// the closed value is not an element of the installed pool m.polls
				v := callCommon(i).Value
				if u, ok := v.(*ssa.UnOp); ok {
					if ia, ok := u.X.(*ssa.IndexAddr); ok {
						if _, old := loadOfField(ia.X, "manager", "polls"); old {
							return false
						}
					}
				}
				return true
			}
			// the loop heads that govern such a close count as "the clean-up was reached" (the loop may have nothing to do)
			heads := map[ssa.Instruction]bool{}
			for _, c := range findIns(run, isNewPollClose) {
				body := c.Block()
				reach := map[*ssa.BasicBlock]bool{}
				work := []*ssa.BasicBlock{body}
				for len(work) > 0 {
					b := work[0]
					work = work[1:]
					for _, sc := range b.Succs {
						if !reach[sc] {
							reach[sc] = true
							work = append(work, sc)
						}
					}
				}
				for _, b := range run.Blocks {
					if len(b.Instrs) == 0 {
						continue
					}
					if ifi, ok := b.Instrs[len(b.Instrs)-1].(*ssa.If); ok && b.Dominates(body) && reach[b] {
						heads[ifi] = true
					}
				}
			}
			via := func(i ssa.Instruction) bool { return isNewPollClose(i) || heads[i] }
			for _, op := range opens {
				// the error test that follows the call in its block (err is a named result held in a cell: compare by position)
				blk := op.Block()
				ifi, _ := blk.Instrs[len(blk.Instrs)-1].(*ssa.If)
				if ifi == nil {
					continue
				}
				b, ok := ifi.Cond.(*ssa.BinOp)
				if !ok || (b.Op != token.NEQ && b.Op != token.EQL) || !isNilConst(b.Y) || !types.Identical(b.X.Type(), types.Universe.Lookup("error").Type()) {
					continue
				}
				failedBranch := b.Op == token.NEQ
				starts := []Start{OnEdge(ifi, failedBranch)}
				// only relevant when earlier iterations may have opened pollers: the call sits in a loop
				r.mustPass("C15.R5:failed-growth-closes-new-pollers:"+siteKey(w, op), "when opening a poller fails while the pool grows, the pollers already opened by this call (held only in the local slice, out of reach of the deferred manager.Close) are closed before Run returns the error: their epoll and wake-up descriptors would otherwise stay open for the life of the process", run, op, starts, via, nil, nil, "Close() of the new pollers on every path from the failed open")
			}
		}
		// ... and they are the right ones (C18.R3)
		r.borrow([]string{"C18.R3:shrink-closes-surplus", "C18.R3:opened-is-started"}, "C18.R3", "C15.R5", func() { c18(r) })
		mc := w.MustFn("(*manager).Close")
		r.ob("C15.R5:manager-close-closes-all", "manager.Close closes every poller", mc, nil, len(findIns(mc, isPollClose)) > 0, "poll.Close() in a range over polls", false)
	}
}
