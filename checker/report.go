package main

import (
	"encoding/json"
	"fmt"
	"os"
	"path/filepath"
	"sort"
	"strings"
	"time"

	"golang.org/x/tools/go/ssa"
)

type Obligation struct {
	Key        string `json:"key"`
	Rule       string `json:"rule"`
	Config     string `json:"config"`
	Function   string `json:"function,omitempty"`
	Where      string `json:"where,omitempty"`
	Status     string `json:"status"` // discharged | violated | known-finding
	Detail     string `json:"detail,omitempty"`
	Nontrivial bool   `json:"needed_cfg_query"`
}

type Run struct {
	Prop    string
	Tier    string
	Repo    string
	Verif   string
	Only    string
	W       *World // current configuration
	Obls    []Obligation
	keys    map[string]int
	Configs []string
	Visited int
	FnSeen  map[string]bool
	Notes   []string
	start   time.Time
	Explain string
	Assume  []string
	// borrowing rules of another property: keep only keys with one of these prefixes and rename them
	keep   []string
	rename [2]string
}

// borrow runs rules written for another property and files the selected obligations under this one.
func (r *Run) borrow(keep []string, from, to string, f func()) {
	if r.keep != nil {
		return // no nested borrowing: the borrowed rule set is evaluated for its own rules only
	}
	r.keep, r.rename = keep, [2]string{from, to}
	defer func() { r.keep, r.rename = nil, [2]string{} }()
	f()
}

// useOpt loads a secondary build configuration; when it does not load or type-check (an edit that only
// compiles for the primary build) the configuration is skipped with a note instead of breaking the check.
func (r *Run) useOpt(cfg string) (w *World) {
	defer func() {
		if e := recover(); e != nil {
			if b, ok := e.(brokenErr); ok && cfg != "linux" {
				r.Notes = append(r.Notes, "configuration "+cfg+" skipped: "+b.msg)
				fmt.Printf("NOTE: configuration %s skipped: %s\n", cfg, b.msg)
				w = nil
				return
			}
			panic(e)
		}
	}()
	return r.use(cfg)
}

func (r *Run) use(cfg string) *World {
	w := loadWorld(r.Repo, cfg)
	r.W = w
	for _, c := range r.Configs {
		if c == cfg {
			return w
		}
	}
	r.Configs = append(r.Configs, cfg)
	return w
}

func (r *Run) key(k string) string {
	if r.keys == nil {
		r.keys = map[string]int{}
	}
	full := k
	if r.W != nil && r.W.Cfg.Name != "linux" {
		full = k + "@" + r.W.Cfg.Name
	}
	r.keys[full]++
	if n := r.keys[full]; n > 1 {
		full = fmt.Sprintf("%s#%d", full, n)
	}
	return full
}

func (r *Run) seen(fn *ssa.Function) {
	if fn == nil {
		return
	}
	if r.FnSeen == nil {
		r.FnSeen = map[string]bool{}
	}
	r.FnSeen[r.W.Cfg.Name+":"+r.W.FnName(fn)] = true
}

type abortErr struct{}

// absentf records that a mechanism the property's rules are anchored on (a call, a statement, a closure - not a
// named function, type or constant) is missing from the code: the structural condition it stands for is absent, which
// is a VIOLATION (not a broken check); the rest of this property's rules for the configuration are skipped.
func (r *Run) absentf(format string, a ...interface{}) {
	msg := fmt.Sprintf(format, a...)
	h := 0
	for _, c := range format {
		h = (h*31 + int(c)) & 0xffff
	}
	r.ob(fmt.Sprintf("%s.R0:mechanism-present:%04x", r.Prop, h), "the mechanism this property's rules are anchored on is present in the code", nil, nil, false, "missing: "+msg, false)
	panic(abortErr{})
}

// roles resolves the protocol roles; a role whose construct is missing is reported as an absent mechanism.
func (r *Run) roles() *Roles {
	ro := rolesOf(r.W)
	var mine []string
	for _, a := range ro.absent {
		if strings.Contains(a, "finalizer") {
			switch r.Prop {
			case "C05", "C10", "C15", "C19":
			default:
				continue // this property's rules do not depend on the finalizer
			}
		}
		mine = append(mine, a)
	}
	if len(mine) > 0 {
		r.absentf("%s", strings.Join(mine, "; "))
	}
	return ro
}

// ob records one obligation. key is stable (rule + construct, never a line number).
func (r *Run) ob(key, rule string, fn *ssa.Function, at ssa.Instruction, ok bool, detail string, nontrivial bool) bool {
	if r.keep != nil {
		hit := false
		for _, k := range r.keep {
			if strings.HasPrefix(key, k) {
				hit = true
			}
		}
		if !hit {
			return ok
		}
		key = r.rename[1] + strings.TrimPrefix(key, r.rename[0])
	}
	r.seen(fn)
	o := Obligation{Key: r.key(key), Rule: rule, Config: r.W.Cfg.Name, Nontrivial: nontrivial, Detail: detail}
	if fn != nil {
		o.Function = r.W.FnName(fn)
	}
	if at != nil {
		o.Where = r.W.InsPos(at)
	} else if fn != nil {
		o.Where = r.W.Pos(fn.Pos())
	}
	if ok {
		o.Status = "discharged"
	} else {
		o.Status = "violated"
	}
	if r.Only != "" && !strings.HasPrefix(o.Key, r.Only) {
		return ok
	}
	r.Obls = append(r.Obls, o)
	return ok
}

// obW records an obligation that holds iff the search found no witness.
func (r *Run) obW(key, rule string, fn *ssa.Function, at ssa.Instruction, w *Witness, okDetail string) bool {
	if w == nil {
		return r.ob(key, rule, fn, at, true, okDetail, true)
	}
	return r.ob(key, rule, fn, at, false, r.witnessText(w), true)
}

func (r *Run) witnessText(w *Witness) string {
	var sb strings.Builder
	sb.WriteString("path: ")
	sb.WriteString(strings.Join(w.Trail, " -> "))
	if w.Target != nil {
		fmt.Fprintf(&sb, " -> reaches %s at %s", insText(w.Target), r.W.InsPos(w.Target))
	} else if w.Exit != nil {
		fmt.Fprintf(&sb, " -> exit at %s", r.W.InsPos(w.Exit))
	}
	return sb.String()
}

func insText(ins ssa.Instruction) string {
	if cc := callCommon(ins); cc != nil {
		pre := ""
		switch ins.(type) {
		case *ssa.Defer:
			pre = "defer "
		case *ssa.Go:
			pre = "go "
		}
		return pre + callDesc(cc)
	}
	s := ins.String()
	if len(s) > 80 {
		s = s[:80]
	}
	return s
}

// ---------------------------------------------------------------------------------------------

type knownFinding struct {
	Property string `json:"property"`
	Key      string `json:"key"`
	Status   string `json:"status"` // open | fixed
	Commit   string `json:"commit,omitempty"`
	What     string `json:"what"`
	Line     string `json:"line,omitempty"`
}

func loadKnown(verif string) []knownFinding {
	b, err := os.ReadFile(filepath.Join(verif, "known_findings.json"))
	if err != nil {
		return nil
	}
	var f struct {
		Findings []knownFinding `json:"findings"`
	}
	if err := json.Unmarshal(b, &f); err != nil {
		broken("known_findings.json does not parse: %v", err)
	}
	return f.Findings
}

func (r *Run) finish() int {
	known := loadKnown(r.Verif)
	openKeys := map[string]knownFinding{}
	for _, k := range known {
		if k.Property == r.Prop && k.Status == "open" {
			openKeys[k.Key] = k
		}
	}
	sort.SliceStable(r.Obls, func(i, j int) bool { return r.Obls[i].Key < r.Obls[j].Key })
	nViol, nKnown, nDis, nNontriv := 0, 0, 0, 0
	distinct := map[string]bool{}
	var viol []Obligation
	for i := range r.Obls {
		o := &r.Obls[i]
		if o.Status == "violated" {
			base := o.Key
			if i := strings.Index(base, "@"); i >= 0 {
				base = base[:i]
			}
			if kf, ok := openKeys[base]; ok {
				o.Status = "known-finding"
				nKnown++
				fmt.Printf("KNOWN-FINDING: property=%s %s %s\n", r.Prop, o.Key, kf.What)
			} else {
				nViol++
				viol = append(viol, *o)
			}
		} else {
			nDis++
		}
		if o.Nontrivial && !distinct[o.Key] {
			distinct[o.Key] = true
			nNontriv++
		}
	}
	for _, o := range r.Obls {
		fmt.Printf("%-13s %-48s %s %s\n", strings.ToUpper(o.Status), o.Key, o.Where, o.Function)
		if o.Status != "discharged" {
			fmt.Printf("    rule: %s\n    %s\n", o.Rule, o.Detail)
		}
	}
	if len(r.Obls) == 0 {
		broken("no obligations were generated for %s (vacuous run)", r.Prop)
	}
	var selftest []selfTestResult
	if r.Tier == "thorough" && r.Only == "" && os.Getenv("NPLINT_NO_SELFTEST") == "" {
		selftest = r.selfTest()
	}
	wall := time.Since(r.start).Seconds()
	evDir := filepath.Join(r.Verif, "evidence")
	os.MkdirAll(evDir, 0o755)
	samples := []interface{}{}
	// samples: all non-discharged plus up to 12 discharged, spread over rules
	perRule := map[string]int{}
	for _, o := range r.Obls {
		rk := strings.SplitN(o.Key, ":", 2)[0]
		if o.Status != "discharged" || perRule[rk] < 2 {
			samples = append(samples, o)
			perRule[rk]++
		}
	}
	fnList := []string{}
	for f := range r.FnSeen {
		fnList = append(fnList, f)
	}
	sort.Strings(fnList)
	seed := 0
	fmt.Sscanf(os.Getenv("VERIF_SEED"), "%d", &seed)
	ev := map[string]interface{}{
		"property_id": r.Prop,
		"tier":        r.Tier,
		"seed":        seed,
		"level":       "other",
		"wall_s":      wall,
		"violations":  nViol,
		"assumptions": r.Assume,
		"coverage": map[string]interface{}{
			"explanation":          r.Explain,
			"obligations":          len(r.Obls),
			"discharged":           nDis,
			"known_findings":       nKnown,
			"evaluations":          len(r.Obls),
			"distinct_nontrivial":  nNontriv,
			"rule":                 "one obligation per (rule, construct) instance found in the type-checked SSA of /repo; non-trivial = its verdict needed a control-flow / dataflow query (path search, guard fact, summary), not a table lookup; keys are rule+construct, never line numbers",
			"samples":              samples,
			"all_obligations":      r.Obls,
			"configs":              r.Configs,
			"functions_analysed":   fnList,
			"instructions_visited": r.Visited,
			"checker_cmd":          fmt.Sprintf("bin/nplint -prop %s -tier %s", r.Prop, r.Tier),
			"trusted_base":         []string{"go/types + go/ssa (x/tools v0.29.0) model the source faithfully", "sync/atomic operations are linearizable", "role tables in /verif/checker (which function is the lock op / callback runner / pool primitive)"},
			"exhaustive":           true,
			"notes":                r.Notes,
			"selftest_kill_matrix": selftest,
		},
	}
	b, _ := json.MarshalIndent(ev, "", " ")
	if r.Only == "" {
		if err := os.WriteFile(filepath.Join(evDir, r.Prop+".json"), b, 0o644); err != nil {
			broken("cannot write evidence: %v", err)
		}
	}
	fmt.Printf("SUMMARY property=%s tier=%s configs=%v obligations=%d discharged=%d known=%d violated=%d functions=%d wall=%.1fs\n",
		r.Prop, r.Tier, r.Configs, len(r.Obls), nDis, nKnown, nViol, len(fnList), wall)
	if nViol > 0 {
		vp := filepath.Join(evDir, r.Prop+".violation.json")
		vb, _ := json.MarshalIndent(map[string]interface{}{"property_id": r.Prop, "violations": viol,
			"replay": fmt.Sprintf("bin/nplint -prop %s -tier %s -only <key>", r.Prop, r.Tier)}, "", " ")
		os.WriteFile(vp, vb, 0o644)
		for _, o := range viol {
			fmt.Printf("VIOLATED %s at %s in %s: %s\n", o.Key, o.Where, o.Function, o.Rule)
		}
		fmt.Printf("VIOLATION property=%s replay=%s\n", r.Prop, vp)
		return 1
	}
	os.Remove(filepath.Join(evDir, r.Prop+".violation.json"))
	return 0
}
