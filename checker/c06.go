package main

import (
	"fmt"
	"go/token"
	"go/types"

	"golang.org/x/tools/go/ssa"
)

func init() {
	register("C06",
		"Decides the structural premises of 'serial and never stranded': every OnRequest/OnConnect invocation is at Held(processing); after the handler task releases the lock its first action is to re-read the closing state and the input length, and a positive length leads to a new trylock and back to the OnRequest test (unlock -> re-check, the handler side of the Dekker pair); the poller publishes the new length (bookAck) before it tries the lock or reads waitReadSize, and tries whenever the buffer was empty before; SetOnRequest stores the handler before testing for buffered input; buffered input is offered before the close callbacks; onRequest defers to an unfinished OnConnect. On hang-up the poller runs the callbacks itself only after it saw the buffer empty / no handler / a busy task (F16). Not decided: fairness of the task runner, a handler that never drains.",
		[]string{"sync/atomic is linearizable", "runner.RunTask eventually runs the task"},
		func(r *Run) {
			cfgs := []string{"linux"}
			if r.Tier == "thorough" {
				cfgs = []string{"linux", "linux-race", "darwin"}
			}
			for _, c := range cfgs {
				if r.useOpt(c) == nil {
					continue
				}
				c06(r)
			}
		})
}

func c06(r *Run) {
	w := r.W
	ro := r.roles()
	px := protoEffects(w)
	kP := ro.kProcessing

	// ---- R1 serial ----------------------------------------------------------------------------
	n := 0
	for _, f := range w.Funcs {
		for _, ins := range findIns(f, func(i ssa.Instruction) bool {
			k := userCallbackKind(i)
			return k == "OnRequest" || k == "OnConnect"
		}) {
			n++
			entryHeld := f == ro.task
			wit := px.heldWitness(f, ins, kP, entryHeld, nil)
			r.obW("C06.R1:held:"+siteKey(w, ins), "OnRequest / OnConnect are invoked only while the processing lock is held (one handler at a time)", f, ins, wit, "Held(processing)")
		}
	}
	if n < 3 {
		r.absentf(" C06: only %d OnRequest/OnConnect invocation sites", n)
	}
	// the task is only ever started by onProcess (C05.R1 shows it starts with the lock)
	for _, f := range w.Funcs {
		for _, ins := range findIns(f, func(i ssa.Instruction) bool {
			mc, ok := i.(*ssa.MakeClosure)
			return ok && mc.Fn == ssa.Value(ro.task)
		}) {
			r.ob("C06.R1:task-created-by:"+w.FnName(f), "the handler task closure is created only by onProcess (after its trylock)", f, ins, f == ro.onProcess, "created in "+w.FnName(f), false)
		}
	}

	// the task handed to the runner is always run: every function the module installs as runner.RunTask runs (or spawns,
	// or forwards) its task argument on every path - the starter holds the processing lock on the task's behalf
	runnerRunsTask(r, "C06.R1")

	// ---- R2 no stranded input: unlock -> re-read -> relock -> OnRequest ---------------------
	unlocks := findIns(ro.task, func(i ssa.Instruction) bool {
		_, isCall := i.(*ssa.Call)
		return isCall && isKeyCall(i, ro.unlock, kP)
	})
	isLenRead := func(i ssa.Instruction) bool {
		c, ok := i.(*ssa.Call)
		return ok && (isLenCall(c) || isEmptyCall(c))
	}
	closedRun := func(i ssa.Instruction) bool { return px.Must(i, "closecb") }
	if len(unlocks) == 0 {
		r.ob("C06.R2:task-unlocks", "the handler task releases the processing lock", ro.task, nil, false, "no unlock(processing)", false)
	}
	for i, u := range unlocks {
		key := ordinal(i)
		// (a) after the release every path re-reads the input length (or ends in the close callbacks)
		r.mustPass("C06.R2:reread-len-after-unlock"+key, "after unlock(processing) every path of the task re-reads the input length (or runs the close callbacks) before it exits: data published while the lock was still held is seen", ro.task, u,
			[]Start{After(u)}, anyOf(isLenRead, closedRun), nil, onReqSetAssume, "Len() re-read on every path")
	}
	// (b') the task exits after unlock(processing) without re-trying the lock only on an edge where it observed the
	// input buffer EMPTY (or has no handler)
	for i, u := range unlocks {
		empty := lenZeroFact(true)
		noHandler := func(v ssa.Value) (bool, bool) {
			pol, ok := onReqSetAssume(v)
			return !pol, ok
		}
		ss := &Search{Fn: ro.task, Stop: anyOf(func(x ssa.Instruction) bool { return isKeyCall(x, ro.lock, kP) }, closedRun), CutEdge: cutOn(anyAtom(empty, noHandler))}
		wit := ss.Find([]Start{After(u)}, nil, true)
		r.Visited += ss.Visited
		r.obW("C06.R2:exit-only-if-drained"+ordinal(i), "after unlock(processing) the task exits without re-trying the lock only on an edge where it observed the input buffer empty: anything the poller published while the lock was still held is picked up", ro.task, u, wit, "trylock(processing), or an empty observation, on every path to exit")
	}
	// (c) a re-taken lock leads back to the OnRequest test: to an OnRequest call, an unlock (next round of the hand-off) or the close callbacks
	for i, st := range edgesEstablishing(ro.task, callResultAtom(ro.lock, true, kP)) {
		r.mustPass(fmt.Sprintf("C06.R2:relock-leads-to-handler#%d", i+1), "after a successful re-lock every path runs OnRequest, or releases the lock again (re-entering the re-check), or runs the close callbacks", ro.task, st.B.Instrs[0],
			[]Start{st}, anyOf(func(x ssa.Instruction) bool { return userCallbackKind(x) == "OnRequest" }, func(x ssa.Instruction) bool { return isKeyCall(x, ro.unlock, kP) }, closedRun), nil, nil, "OnRequest | unlock | closeCallback on every path")
	}
	// (d) OnRequest is actually invoked when the task sees data: from the Len()>0 edge whose false
	// side skips the handler, the next thing is the OnRequest call (no other exit)
	{
		onReqNonNil := func(v ssa.Value) (bool, bool) {
			b, ok := v.(*ssa.BinOp)
			if !ok || (b.Op != token.EQL && b.Op != token.NEQ) {
				return false, false
			}
			for _, side := range [][2]ssa.Value{{b.X, b.Y}, {b.Y, b.X}} {
				if namedTypeName(side[0].Type()) == "OnRequest" && isNilConst(side[1]) {
					return b.Op == token.NEQ, true
				}
			}
			return false, false
		}
		assume := func(v ssa.Value) (bool, bool) {
			if pol, ok := onReqNonNil(v); ok {
				return pol, true
			}
			return false, false
		}
		var starts []Start
		for _, e := range edgesEstablishing(ro.task, lenZeroFact(false)) {
			starts = append(starts, e)
		}
		// exclude the re-check after unlock (that one leads to trylock, checked above): keep edges from
		// which an OnRequest call is reachable without passing a trylock
		var keep []Start
		for _, e := range starts {
			ss := &Search{Fn: ro.task, Stop: func(x ssa.Instruction) bool { return isKeyCall(x, ro.lock, kP) }, Assume: assume}
			if ss.Find([]Start{e}, func(x ssa.Instruction) bool { return userCallbackKind(x) == "OnRequest" }, false) != nil {
				keep = append(keep, e)
			}
		}
		r.mustPass("C06.R2:data-means-handler", "whenever the task (holding the lock, handler set, not closed by the user) sees Len()>0 it invokes OnRequest before it can exit", ro.task, nil,
			keep, func(x ssa.Instruction) bool { return userCallbackKind(x) == "OnRequest" }, nil, assume, "OnRequest on every path from a Len()>0 edge under the lock")
	}

	// ---- R3 poller publishes before it tries ---------------------------------------------------
	{
		fn := w.MustFn("(*connection).inputAck")
		isBookAck := func(i ssa.Instruction) bool {
			m, ok := callOnField(i, "connection", "inputBuffer")
			return ok && m == "bookAck"
		}
		bookAcks := findIns(fn, isBookAck)
		if len(bookAcks) == 0 {
			r.absentf(" C06: inputAck does not call bookAck")
		}
		for _, site := range findIns(fn, func(i ssa.Instruction) bool { return isCall(i, ro.onRequestM) }) {
			r.precedes("C06.R3:publish-before-try:"+siteKey(w, site), "the poller publishes the received bytes (bookAck -> atomic length) before it tries to start the handler: the handler's re-check after unlock then sees them", fn, site, isBookAck, nil, "bookAck dominates onRequest()")
		}
		for _, site := range findIns(fn, func(i ssa.Instruction) bool {
			a := asAtomic(i)
			return a != nil && a.Op == "Load" && structFieldOfAddr(a.Addr) == "connection.waitReadSize"
		}) {
			r.precedes("C06.R3:publish-before-waitsize:"+siteKey(w, site), "the poller publishes the new length before it reads waitReadSize (poller side of the blocked-reader Dekker pair)", fn, site, isBookAck, nil, "bookAck dominates Load(waitReadSize)")
		}
		// the handler is tried whenever the buffer was empty before this delivery (length == n)
		var mainAck ssa.Instruction
		for _, b := range bookAcks {
			if k, ok := constInt(argVal(callCommon(b), 0)); !(ok && k == 0) {
				mainAck = b
			}
		}
		if mainAck == nil {
			r.ob("C06.R3:try-when-was-empty", "inputAck acknowledges the received count", fn, nil, false, "no bookAck(n) with the received count", false)
		} else {
			wasEmpty := func(v ssa.Value) (bool, bool) {
				b, ok := v.(*ssa.BinOp)
				if !ok || (b.Op != token.EQL && b.Op != token.NEQ) {
					return false, false
				}
				isLen := func(x ssa.Value) bool {
					e, ok := x.(*ssa.Extract)
					return ok && e.Tuple == mainAck.(ssa.Value) && e.Index == 0
				}
				isN := func(x ssa.Value) bool { p, ok := x.(*ssa.Parameter); return ok && p.Parent() == fn }
				if (isLen(b.X) && isN(b.Y)) || (isLen(b.Y) && isN(b.X)) {
					return b.Op == token.EQL, true
				}
				return false, false
			}
			r.mustPass("C06.R3:try-when-was-empty", "when the delivery found the buffer empty (new length == received count) the poller always calls onRequest(): no handler can be running that would pick the data up", fn, mainAck,
				[]Start{After(mainAck)}, func(x ssa.Instruction) bool { return isCall(x, ro.onRequestM) }, nil,
				func(v ssa.Value) (bool, bool) {
					if pol, ok := wasEmpty(v); ok {
						return pol, true
					}
					return false, false
				}, "onRequest() on every path when length==n")
		}
	}
	{
		fn := w.MustFn("(*connection).SetOnRequest")
		isStore := func(i ssa.Instruction) bool {
			a := asAtomic(i)
			return a != nil && a.Op == "Store" && structFieldOfAddr(a.Addr) == "onEvent.onRequestCallback"
		}
		sites := findIns(fn, func(i ssa.Instruction) bool { return isCall(i, ro.onRequestM) })
		if len(sites) == 0 {
			r.ob("C06.R3:SetOnRequest-kicks", "SetOnRequest starts the handler when input is already buffered", fn, nil, false, "no onRequest() call", false)
		}
		for _, site := range sites {
			r.precedes("C06.R3:SetOnRequest-store-first", "SetOnRequest stores the handler before it looks for buffered input (so a concurrent delivery either sees the handler or is seen by the test)", fn, site, isStore, nil, "Store(onRequestCallback) dominates onRequest()")
		}
		emptyReads := findIns(fn, func(i ssa.Instruction) bool {
			c, ok := i.(*ssa.Call)
			return ok && (isLenCall(c) || isEmptyCall(c))
		})
		for _, site := range emptyReads {
			r.precedes("C06.R3:SetOnRequest-store-before-test", "the emptiness test comes after the handler store", fn, site, isStore, nil, "Store dominates the test")
		}
		// the emptiness test is unconditional once the handler is stored
		for _, st := range findIns(fn, isStore) {
			r.mustPass("C06.R3:SetOnRequest-always-tests", "after storing the handler SetOnRequest always looks for buffered input (also on a connection the peer already closed: nothing else would start the handler)", fn, st, []Start{After(st)},
				func(x ssa.Instruction) bool { c, ok := x.(*ssa.Call); return ok && (isLenCall(c) || isEmptyCall(c)) }, nil, nil, "emptiness test on every path after the store")
		}
		// when data is buffered onRequest() is called
		var starts []Start
		for _, e := range edgesEstablishing(fn, lenZeroFact(false)) {
			starts = append(starts, e)
		}
		r.mustPass("C06.R3:SetOnRequest-kicks", "with input already buffered SetOnRequest always calls onRequest()", fn, nil, starts,
			func(x ssa.Instruction) bool { return isCall(x, ro.onRequestM) }, nil, nil, "onRequest() on every path from the non-empty edge")
	}

	// every invocation of the request handler in the task is behind "a handler is installed": a connection may have an
	// OnConnect only, and its task still sees input
	for _, site := range findIns(ro.task, func(i ssa.Instruction) bool { return userCallbackKind(i) == "OnRequest" }) {
		hasHandler := func(v ssa.Value) (bool, bool) {
			b, ok := v.(*ssa.BinOp)
			if !ok || (b.Op != token.EQL && b.Op != token.NEQ) {
				return false, false
			}
			for _, side := range [][2]ssa.Value{{b.X, b.Y}, {b.Y, b.X}} {
				if namedTypeName(side[0].Type()) == "OnRequest" && isNilConst(side[1]) {
					return b.Op == token.NEQ, true
				}
			}
			return false, false
		}
		r.guarded("C06.R1:handler-call-nil-guarded:"+siteKey(w, site), "the task invokes the request handler only after seeing that one is installed (a connection with only an OnConnect still gets input)", ro.task, site, hasHandler, nil, "guarded by onRequest != nil")
	}
	// ---- R4 buffered input is offered before the close callbacks ------------------------------
	{
		statusCall := isCallOf(ro.status, ro.kClosing)
		userClosed := cmpAtom(statusCall, isConstEq(ro.whoUser), eqRel)
		noHandler := func(v ssa.Value) (bool, bool) {
			b, ok := v.(*ssa.BinOp)
			if !ok || (b.Op != token.EQL && b.Op != token.NEQ) {
				return false, false
			}
			for _, side := range [][2]ssa.Value{{b.X, b.Y}, {b.Y, b.X}} {
				if namedTypeName(side[0].Type()) == "OnRequest" && isNilConst(side[1]) {
					return b.Op == token.EQL, true
				}
			}
			return false, false
		}
		offered := anyAtom(userClosed, noHandler, lenZeroFact(true))
		for _, site := range findIns(ro.task, func(i ssa.Instruction) bool { return isCall(i, ro.closeCallback) }) {
			r.guarded("C06.R4:drain-before-close:"+siteKey(w, site), "the task reaches the close callbacks only after it saw the input drained (Len()==0), or the user closed, or there is no handler: input buffered at peer close is still offered to OnRequest", ro.task, site, offered, nil, "guarded by Len()==0 | closedBy==user | onRequest==nil")
			// ... and that observation is made while holding the lock the callbacks run under: since the lock was (re)taken,
			// not before it was released (the poller may have published input in between)
			starts := edgesEstablishing(ro.task, callResultAtom(ro.lock, true, kP))
			if len(starts) > 0 {
				ss := &Search{Fn: ro.task, CutEdge: cutOn(offered)}
				wit := ss.Find(starts, isIns(site), false)
				r.Visited += ss.Visited
				r.obW("C06.R4:drain-observed-under-the-lock:"+siteKey(w, site), "after re-taking the processing lock the task looks at the input again before it runs the close callbacks: data delivered (and then the peer's close) after its last empty observation is still offered to OnRequest", ro.task, site, wit, "Len()==0 | closedBy==user | onRequest==nil observed since the re-lock")
			}
		}
		// and the first OnRequest test does not depend on the closing state
		firstReq := findIns(ro.task, func(i ssa.Instruction) bool { return userCallbackKind(i) == "OnRequest" })
		onConnNil := func(v ssa.Value) (bool, bool) {
			b, ok := v.(*ssa.BinOp)
			if !ok || (b.Op != token.EQL && b.Op != token.NEQ) {
				return false, false
			}
			for _, side := range [][2]ssa.Value{{b.X, b.Y}, {b.Y, b.X}} {
				if namedTypeName(side[0].Type()) == "OnConnect" && isNilConst(side[1]) {
					return b.Op == token.EQL, true // assume onConnect == nil
				}
			}
			return false, false
		}
		ss := &Search{Fn: ro.task, Stop: func(x ssa.Instruction) bool { return px.May(x, "readClosing") },
			Assume: func(v ssa.Value) (bool, bool) {
				if pol, ok := onConnNil(v); ok {
					return pol, true
				}
				return false, false
			}}
		found := false
		for _, fr := range firstReq {
			if ss.Find([]Start{Entry(ro.task)}, isIns(fr), false) != nil {
				found = true
			}
		}
		r.Visited += ss.Visited
		r.ob("C06.R4:first-offer-ignores-closing", "a task started for a delivery reaches an OnRequest invocation without consulting the closing state first (send-then-close by the peer still gets its request handled)", ro.task, nil, found, "OnRequest reachable from the task entry without reading closing", true)
	}

	// ---- R5 OnConnect first ----------------------------------------------------------------------
	{
		fn := ro.onRequestM
		getState := w.MustFn("(*connection).getState")
		stNone := w.ConstInt("connStateNone")
		stateNotNone := cmpAtom(isCallOf(getState), isConstEq(stNone), neqRel)
		isOnConnLoad := func(v ssa.Value) bool {
			c, ok := v.(*ssa.Call)
			if !ok {
				return false
			}
			a := asAtomic(c)
			return a != nil && a.Op == "Load" && structFieldOfAddr(a.Addr) == "onEvent.onConnectCallback"
		}
		onConnUnset := cmpAtom(isOnConnLoad, isNilConst, eqRel)
		for _, site := range findIns(fn, func(i ssa.Instruction) bool { return isCall(i, ro.onProcess) }) {
			r.guarded("C06.R5:defer-to-onconnect", "onRequest() starts a handler task only when OnConnect has finished (state != none) or none is set; otherwise the connect task picks the data up", fn, site, anyAtom(stateNotNone, onConnUnset), nil, "guarded by state!=none | onConnect==nil")
		}
		// the same deferral on hang-up: while OnConnect is installed and has not started, the poller leaves teardown to the
		// connect task (which offers the buffered input first); running the callbacks here drops a request that was sent
		// right before the close
		for _, site := range findIns(ro.onHup, func(i ssa.Instruction) bool { return isCall(i, ro.closeCallback) }) {
			r.guarded("C06.R5:hup-defers-to-unstarted-onconnect", "on hang-up the poller runs the close callbacks itself only when OnConnect has started (state != none) or none is installed: otherwise input already buffered (and deferred to the OnConnect task by onRequest()) would never be offered", ro.onHup, site, anyAtom(stateNotNone, onConnUnset), nil, "guarded by state!=none | onConnect==nil")
		}
		// ... and when OnConnect is out of the way, a hang-up still offers what is buffered: onHup runs the callbacks itself only
		// after it saw the input empty / no handler, or after its attempt to start a handler task failed on the processing lock
		// (the running task then takes over: C06.R2 / C06.R4); the unfinished-OnConnect branch is the rule above
		{
			isOnReqLoad := func(v ssa.Value) bool {
				c, ok := v.(*ssa.Call)
				if !ok {
					return false
				}
				a := asAtomic(c)
				return a != nil && a.Op == "Load" && structFieldOfAddr(a.Addr) == "onEvent.onRequestCallback"
			}
			noHandlerHup := func(v ssa.Value) (bool, bool) {
				if e, ok := v.(*ssa.Extract); ok && e.Index == 1 {
					if ta, ok := e.Tuple.(*ssa.TypeAssert); ok && ta.CommaOk && isOnReqLoad(ta.X) {
						return false, true
					}
				}
				if b, ok := v.(*ssa.BinOp); ok && (b.Op == token.EQL || b.Op == token.NEQ) {
					for _, side := range [][2]ssa.Value{{b.X, b.Y}, {b.Y, b.X}} {
						if isOnReqLoad(side[0]) && isNilConst(side[1]) {
							return b.Op == token.EQL, true
						}
					}
				}
				return false, false
			}
			typedNoHandler := func(v ssa.Value) (bool, bool) {
				if b, ok := v.(*ssa.BinOp); ok && (b.Op == token.EQL || b.Op == token.NEQ) {
					for _, side := range [][2]ssa.Value{{b.X, b.Y}, {b.Y, b.X}} {
						if namedTypeName(side[0].Type()) == "OnRequest" && isNilConst(side[1]) {
							return b.Op == token.EQL, true
						}
					}
				}
				return false, false
			}
			stateNone := cmpAtom(isCallOf(getState), isConstEq(stNone), eqRel)
			taskBusy := callResultAtom(ro.onProcess, false)
			for _, site := range findIns(ro.onHup, func(i ssa.Instruction) bool { return isCall(i, ro.closeCallback) }) {
				r.guarded("C06.R4:hup-offers-input:"+siteKey(w, site), "on hang-up the poller runs the close callbacks itself only after it saw the input buffer empty (or no handler), or after its attempt to start a handler task failed on the processing lock (the running task then offers the input and tears down): winning the lock inside a task's unlock window must not drop input that was delivered while the task still held it", ro.onHup, site, anyAtom(lenZeroFact(true), noHandlerHup, typedNoHandler, taskBusy, stateNone), nil, "guarded by Len()==0 | no handler | onProcess()==false")
			}
		}
		// ... with the handler that is installed when OnConnect has returned: OnConnect may install it itself (SetOnRequest), and
		// that call's kick is deferred to this task - a task that goes on with the handler it captured before (possibly nil)
		// leaves the input that arrived meanwhile stranded
		for _, site := range findIns(ro.task, func(i ssa.Instruction) bool { return userCallbackKind(i) == "OnConnect" }) {
			reload := func(i ssa.Instruction) bool {
				a := asAtomic(i)
				return a != nil && a.Op == "Load" && structFieldOfAddr(a.Addr) == "onEvent.onRequestCallback"
			}
			firstUse := func(i ssa.Instruction) bool { return userCallbackKind(i) == "OnRequest" }
			ss := &Search{Fn: ro.task, Stop: reload}
			wit := ss.Find([]Start{After(site)}, firstUse, false)
			r.Visited += ss.Visited
			r.obW("C06.R5:handler-reloaded-after-onconnect", "after OnConnect returned, the connect task re-reads the installed request handler before it offers input: a handler that OnConnect itself installed (SetOnRequest) is the one that gets the input which arrived while OnConnect ran", ro.task, site, wit, "Load(onRequestCallback) on every path from OnConnect to the first OnRequest invocation")
		}
		// the connect task reaches the OnRequest test after OnConnect
		for _, site := range findIns(ro.task, func(i ssa.Instruction) bool { return userCallbackKind(i) == "OnConnect" }) {
			isLenRead := func(i ssa.Instruction) bool {
				c, ok := i.(*ssa.Call)
				return ok && (isLenCall(c) || isEmptyCall(c))
			}
			onReqNil := func(v ssa.Value) (bool, bool) {
				b, ok := v.(*ssa.BinOp)
				if !ok || (b.Op != token.EQL && b.Op != token.NEQ) {
					return false, false
				}
				for _, side := range [][2]ssa.Value{{b.X, b.Y}, {b.Y, b.X}} {
					if namedTypeName(side[0].Type()) == "OnRequest" && isNilConst(side[1]) {
						return b.Op == token.NEQ, true
					}
				}
				return false, false
			}
			r.mustPass("C06.R5:connect-task-checks-input", "after OnConnect returns the same task tests for buffered input (the poller deferred to it)", ro.task, site, []Start{After(site)},
				anyOf(isLenRead, func(x ssa.Instruction) bool { return px.Must(x, "closecb") }), nil,
				func(v ssa.Value) (bool, bool) {
					if pol, ok := onReqNil(v); ok {
						return pol, true
					}
					return false, false
				}, "Len() test on every path after OnConnect")
		}
		// state becomes connected before OnConnect runs and only via CAS none->connected
		chg := w.MustFn("(*connection).changeState")
		stConn := w.ConstInt("connStateConnected")
		for _, site := range findIns(ro.task, func(i ssa.Instruction) bool { return userCallbackKind(i) == "OnConnect" }) {
			r.guarded("C06.R5:onconnect-once", "OnConnect runs only for the goroutine that moved state none->connected", ro.task, site, callResultAtom(chg, true, stNone, stConn), nil, "guarded by changeState(none,connected)==true")
		}
	}
	// a handler that panics in a later round of the same task must still reach the panic path (C05.R2)
	if r.keep == nil {
		r.borrow([]string{"C05.R2:panicked-cleared-only-at-exit"}, "C05.R2", "C06.R6", func() { c05(r) })
	}
}

// edgeCond returns the condition value of the If whose edge the start represents.
func edgeCond(e Start) ssa.Value {
	if e.Pred < 0 || e.Pred >= len(e.B.Preds) {
		return nil
	}
	pb := e.B.Preds[e.Pred]
	ifi, ok := pb.Instrs[len(pb.Instrs)-1].(*ssa.If)
	if !ok {
		return nil
	}
	return ifi.Cond
}

// condUsesAny: the (boolean) value is computed from one of the given instructions.
func condUsesAny(v ssa.Value, inss []ssa.Instruction) bool {
	if v == nil {
		return false
	}
	seen := map[ssa.Value]bool{}
	var walk func(x ssa.Value, d int) bool
	walk = func(x ssa.Value, d int) bool {
		if x == nil || seen[x] || d > 6 {
			return false
		}
		seen[x] = true
		if ins, ok := x.(ssa.Instruction); ok {
			for _, i := range inss {
				if i == ins {
					return true
				}
			}
			var buf [8]*ssa.Value
			for _, op := range ins.Operands(buf[:0]) {
				if *op != nil && walk(*op, d+1) {
					return true
				}
			}
		}
		return false
	}
	return walk(v, 0)
}

// onReqSetAssume: analyse the task for a connection that has a request handler (onRequest != nil).
func onReqSetAssume(v ssa.Value) (bool, bool) {
	b, ok := v.(*ssa.BinOp)
	if !ok || (b.Op != token.EQL && b.Op != token.NEQ) {
		return false, false
	}
	for _, side := range [][2]ssa.Value{{b.X, b.Y}, {b.Y, b.X}} {
		if namedTypeName(side[0].Type()) == "OnRequest" && isNilConst(side[1]) {
			return b.Op == token.NEQ, true
		}
	}
	return false, false
}

// runnerRunsTask: every module function stored into runner.RunTask runs its func() argument on every path.
func runnerRunsTask(r *Run, prefix string) {
	w := r.W
	if w.Runner == nil {
		return
	}
	n := 0
	for _, f := range w.Funcs {
		forEachIns(f, func(i ssa.Instruction) {
			st, ok := i.(*ssa.Store)
			if !ok {
				return
			}
			g, ok := st.Addr.(*ssa.Global)
			if !ok || g.Name() != "RunTask" || g.Pkg != w.Runner {
				return
			}
			n++
			val := st.Val
			if ct, ok := val.(*ssa.ChangeType); ok {
				val = ct.X
			}
			target := makeClosureFn(val)
			if target == nil || target.Blocks == nil || target.Pkg == nil || !isModulePkg(target.Pkg.Pkg) {
				// an external pool function or a user-supplied runner (Configure/SetRunner): trusted by assumption
				r.ob(prefix+":runner-installed:"+siteKey(w, i), "what is installed as runner.RunTask is a pool's CtxGo, a user-supplied runner, or a module function checked below", f, i, true, "external / user-supplied runner (assumed to run the task)", false)
				return
			}
			// the func() parameter
			var task *ssa.Parameter
			for _, p := range target.Params {
				if sig, ok := p.Type().Underlying().(*types.Signature); ok && sig.Params().Len() == 0 && sig.Results().Len() == 0 {
					task = p
				}
			}
			if task == nil {
				r.ob(prefix+":runner-runs-task:"+w.FnName(target), "the installed runner takes the task", target, nil, false, "no func() parameter", true)
				return
			}
			runs := func(x ssa.Instruction) bool {
				cc := callCommon(x)
				if cc == nil {
					return false
				}
				if !cc.IsInvoke() && cc.StaticCallee() == nil && cc.Value == ssa.Value(task) {
					return true // f() or go f()
				}
				for _, a := range cc.Args {
					if a == ssa.Value(task) {
						return true // forwarded to another runner
					}
				}
				return false
			}
			r.mustPass(prefix+":runner-runs-task:"+w.FnName(target), "a runner installed by the module runs (or spawns, or forwards) the task on every path: a dropped task would leave the processing lock held for ever and the buffered input stranded", target, nil, []Start{Entry(target)}, runs, nil, nil, "f() / go f() / run(ctx, f) on every path")
		})
	}
	if n == 0 {
		r.ob(prefix+":runner-installed", "the module installs a task runner", nil, nil, false, "no store to runner.RunTask found", false)
	}
}
