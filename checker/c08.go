package main

import (
	"fmt"
	"go/token"
	"strings"

	"golang.org/x/tools/go/ssa"
)

func init() {
	register("C08",
		"Decides the structural premises of 'Flush completes exactly when the kernel has taken the data': flush() and the output buffer's Flush run only under the flushing lock, which is released on every exit, and a failed trylock returns ErrConcurrentAccess without touching the buffer; every nil return of flush() is guarded by an observation that the output buffer is empty or is the result of waitFlush(); the poller signals completion (rw2r) only after observing the output buffer empty; write interest is registered (PollR2RW, error checked) before waiting; the byte count acknowledged is the count sendmsg returned (guarded n>0) followed by Release; every ErrWriteTimeout return removes write interest first; the write timer is settled on every path. The write-timeout option reaches SetWriteTimeout; the deadline/timeout setters record their argument; the close paths push ErrConnClosed to a parked flusher. The one-slot write trigger is emptied before write interest is armed and a nil taken from it is never returned as a success of flush()'s own (F29: a completion signalled after an earlier Flush timed out). Not decided: the interleavings of poller, flusher and timer themselves.",
		[]string{"sync/atomic is linearizable", "Go channel and time.Timer semantics", "sendmsg returns the number of bytes the kernel accepted"},
		func(r *Run) {
			cfgs := []string{"linux"}
			if r.Tier == "thorough" {
				cfgs = []string{"linux", "linux-race", "darwin"}
			}
			for _, c := range cfgs {
				if r.useOpt(c) == nil {
					continue
				}
				c08(r)
			}
		})
}

func c08(r *Run) {
	w := r.W
	for _, st := range [][2]string{{"SetDeadline", "writeDeadline"}, {"SetWriteDeadline", "writeDeadline"}, {"SetWriteTimeout", "writeDeadline"}} {
		r.setterStores("C08.R4:setter-records:"+st[0], "the deadline / timeout setters record what they are given on every path (SetWriteTimeout also clears a pending deadline): Flush can only time out at a deadline that was stored", "(*connection)."+st[0], st[1])
	}
	setterAdmitsZero(r, "C08.R4:timeout-can-be-cleared:SetWriteTimeout", "(*connection).SetWriteTimeout", "writeTimeout")
	r.optionPlumbed("C08.R4:write-timeout-option-applied", "the write timeout configured on the event loop (WithWriteTimeout) is the value installed as the connection's write timeout: a Flush on a connection created by the loop times out as configured", "WithWriteTimeout", "(*connection).SetWriteTimeout")
	ro := r.roles()
	px := protoEffects(w)
	kF := ro.kFlushing
	flush := w.MustFn("(*connection).flush")
	waitFlush := w.MustFn("(*connection).waitFlush")
	rw2r := w.MustFn("(*connection).rw2r")
	isOut := func(methods ...string) func(ssa.Instruction) bool {
		return func(i ssa.Instruction) bool {
			m, ok := callOnField(i, "connection", "outputBuffer")
			if !ok {
				return false
			}
			if len(methods) == 0 {
				return true
			}
			for _, x := range methods {
				if x == m {
					return true
				}
			}
			return false
		}
	}

	// ---- R1 single flusher ----------------------------------------------------------------------
	nFl := 0
	for _, site := range callSitesOf(w, flush) {
		fn := site.Parent()
		nFl++
		wit := px.heldWitness(fn, site, kF, false, nil)
		r.obW("C08.R1:flush-under-lock:"+siteKey(w, site), "flush() runs only under the flushing lock", fn, site, wit, "Held(flushing)")
	}
	if nFl < 2 {
		r.absentf(" C08: flush() has %d call sites", nFl)
	}
	for _, fn := range w.Funcs {
		if fn.Signature.Recv() == nil || !isPointerToNamed(fn.Signature.Recv().Type(), "connection") {
			continue
		}
		for _, site := range findIns(fn, isOut("Flush")) {
			wit := px.heldWitness(fn, site, kF, false, nil)
			r.obW("C08.R1:buffer-flush-under-lock:"+siteKey(w, site), "the output buffer is committed (Flush) only under the flushing lock", fn, site, wit, "Held(flushing)")
		}
	}
	for _, name := range []string{"(*connection).Flush", "(*connection).Write"} {
		fn := w.MustFn(name)
		okEdges := edgesEstablishing(fn, callResultAtom(ro.lock, true, kF))
		failEdges := edgesEstablishing(fn, callResultAtom(ro.lock, false, kF))
		isRelease := func(i ssa.Instruction) bool { return isKeyCall(i, ro.unlock, kF) }
		r.mustPass("C08.R1:lock-released:"+fn.Name(), "the flushing lock taken by Flush/Write is released on every exit (deferred or explicit unlock)", fn, nil, okEdges, isRelease, nil, nil, "unlock(flushing) registered/called on every path")
		r.mustPass("C08.R1:concurrent-rejected:"+fn.Name(), "a Flush/Write that finds the lock taken returns ErrConcurrentAccess", fn, nil, failEdges, w.isException("ErrConcurrentAccess"), nil, nil, "Exception(ErrConcurrentAccess) on every path")
		r.neverReach("C08.R1:concurrent-does-not-disturb:"+fn.Name(), "the rejected call touches neither the output buffer nor the socket", fn, nil, failEdges,
			anyOf(isOut(), func(i ssa.Instruction) bool { return isCall(i, flush) }, isRelease), nil, nil, nil, "no buffer use / unlock reachable from the lock-failed edge")
		// ... not before the attempt either: whatever Write/Flush puts into or takes from the output buffer happens after the
		// lock was obtained (bytes copied in before a rejected attempt would be sent by the owner's next Flush)
		for _, use := range findIns(fn, isOut()) {
			ss := &Search{Fn: fn, CutEdge: cutOn(callResultAtom(ro.lock, true, kF))}
			wit := ss.Find([]Start{Entry(fn)}, isIns(use), false)
			r.Visited += ss.Visited
			r.obW("C08.R1:buffer-touched-only-under-lock:"+fn.Name(), "Flush/Write touch the output buffer only after they obtained the flushing lock: a call that is going to be rejected with ErrConcurrentAccess leaves nothing behind", fn, use, wit, "every use of the output buffer is behind lock(flushing)==true")
		}
		// closed connections are rejected before the lock
		for _, site := range findIns(fn, func(i ssa.Instruction) bool { return isKeyCall(i, ro.lock, kF) }) {
			r.guarded("C08.R1:active-before-lock:"+fn.Name(), "Flush/Write check IsActive() before taking the flushing lock (the finalizer stops that lock for ever)", fn, site, callResultAtom(ro.isActive, true), nil, "guarded by IsActive()")
		}
	}

	// commit before send: what Flush/Write submit is committed to the output buffer before flush() looks at it
	for _, name := range []string{"(*connection).Flush", "(*connection).Write"} {
		fn := w.MustFn(name)
		for _, site := range findIns(fn, func(i ssa.Instruction) bool { return isCall(i, flush) }) {
			r.precedes("C08.R1:commit-before-send:"+fn.Name(), "the pending bytes are committed (outputBuffer.Flush) before flush() sends what is readable: nil then means the submitted bytes were taken", fn, site, isOut("Flush"), nil, "outputBuffer.Flush() dominates flush()")
		}
	}
	expiredRule(r, waitFlush, "ErrWriteTimeout", "C08.R4")
	// a Flush in progress is not overtaken by the teardown (the finalizer stops the flushing lock before it frees the slot and
	// closes the descriptor: C05.R8), and the dispatch function returns the slot token on every path, also when there is
	// nothing to send (a slot left busy ignores every later writable event: C10.R1)
	r.borrow([]string{"C05.R8:stop-flushing-first", "C05.R8:free-slot-before-close-fd"}, "C05.R8", "C08.R5", func() { c05(r) })
	r.borrow([]string{"C10.R1:token-released"}, "C10.R1", "C08.R6", func() { c10(r) })

	// ---- R2 nil means drained ---------------------------------------------------------------------
	emptyTrue := lenZeroFact(true)
	nRet := 0
	for _, ins := range allIns(flush) {
		ret, ok := ins.(*ssa.Return)
		if !ok || len(ret.Results) != 1 {
			continue
		}
		nRet++
		key := fmt.Sprintf("C08.R2:flush-return#%d", nRet)
		v := ret.Results[0]
		switch {
		case isNilConst(v):
			r.guarded(key, "flush() returns nil only after observing the output buffer empty", flush, ret, emptyTrue, nil, "guarded by IsEmpty()==true")
		case isCallOf(waitFlush)(v):
			r.ob(key, "flush() otherwise returns what waitFlush() reports", flush, ret, true, "returns waitFlush()", false)
		case isCallOf(w.MustFn("Exception"))(v):
			r.ob(key, "error returns are constructed errors", flush, ret, true, "returns Exception(...)", false)
		case isTriggerValue(v):
			// a value received from the write trigger and seen to be non-nil: the close error pushed by a close path
			nonNil := func(c ssa.Value) (bool, bool) {
				b, ok := c.(*ssa.BinOp)
				if !ok || (b.Op != token.EQL && b.Op != token.NEQ) || !isNilConst(b.Y) || b.X != v {
					return false, false
				}
				return b.Op == token.NEQ, true
			}
			r.guarded(key, "a value taken from the write trigger is returned by flush() itself only when it is an error (the connection was closed meanwhile); a nil taken there is a stale completion and is discarded", flush, ret, nonNil, nil, "guarded by err != nil")
		default:
			r.ob(key, "every return of flush() is nil-when-empty, waitFlush(), a close error taken from the trigger, or an Exception", flush, ret, false, "returns "+shortVal(v), false)
		}
	}
	if nRet < 3 {
		r.absentf(" C08: flush() has %d returns", nRet)
	}
	for _, site := range callSitesOf(w, rw2r) {
		fn := site.Parent()
		r.guarded("C08.R2:signal-only-when-drained:"+siteKey(w, site), "the poller signals completion (rw2r -> triggerWrite(nil)) only after observing the output buffer empty", fn, site, emptyTrue, nil, "guarded by IsEmpty()==true")
	}
	// triggerWrite(nil) only in rw2r
	for _, site := range callSitesOf(w, ro.triggerWrite) {
		if isNilConst(argVal(callCommon(site), 0)) {
			fn := site.Parent()
			r.ob("C08.R2:who-signals-completion:"+w.FnName(fn), "a nil (success) completion is signalled only by rw2r", fn, site, fn == rw2r, "in "+w.FnName(fn), false)
		}
	}
	// rw2r removes write interest before it signals
	for _, site := range findIns(rw2r, func(i ssa.Instruction) bool { return isCall(i, ro.triggerWrite) }) {
		r.precedes("C08.R2:rw2r-order", "rw2r removes write interest before signalling the flusher (which may re-arm it at once)", rw2r, site, func(i ssa.Instruction) bool { return ro.isControl(i, ro.evRW2R) }, nil, "Control(PollRW2R) dominates triggerWrite")
	}
	// Flush (the method) has no success of its own: it returns an Exception (closed, concurrent) or what flush() reports -
	// "nothing new was written" is not "everything was sent" (bytes committed before a timed-out Flush are still unsent)
	for _, mm := range []struct {
		name string
		idx  int
	}{{"Flush", 0}, {"Write", 1}} {
		fm := w.MustFn("(*connection)." + mm.name)
		n := 0
		for _, ins := range allIns(fm) {
			ret, ok := ins.(*ssa.Return)
			if !ok || len(ret.Results) != mm.idx+1 {
				continue
			}
			n++
			okv := true
			for _, v := range resultValues(ret, mm.idx) {
				if isNilConst(v) {
					okv = false
				}
			}
			r.ob(fmt.Sprintf("C08.R2:%s-has-no-success-of-its-own#%d", mm.name, n), mm.name+" returns a nil error only through flush(): no early 'nothing to do' success (an empty Write, ...) - data committed before an earlier call timed out is still in the buffer and must be sent by the retry", fm, ret, okv, "returns flush() or an Exception", true)
		}
	}
	{
		// after write interest was armed every signal is the answer to this Flush: waitFlush uses every value it receives from the
		// trigger (a receive whose value is dropped would throw the completion, or the close error, away)
		for _, ins := range allIns(waitFlush) {
			var val ssa.Value
			switch x := ins.(type) {
			case *ssa.UnOp:
				if x.Op == token.ARROW && strings.HasSuffix(pathOf(x.X), ".writeTrigger") {
					val = x
				}
			case *ssa.Select:
				for _, st := range x.States {
					if strings.HasSuffix(pathOf(st.Chan), ".writeTrigger") {
						val = x
					}
				}
			}
			if val == nil {
				continue
			}
			used := false
			if sel, isSel := val.(*ssa.Select); isSel {
				for _, ref := range *sel.Referrers() {
					if e, ok := ref.(*ssa.Extract); ok && e.Index >= 2 && len(*e.Referrers()) > 0 {
						used = true
					}
				}
			} else if len(*val.Referrers()) > 0 {
				used = true
			}
			r.ob("C08.R2:waitFlush-uses-every-signal:"+siteKey(w, ins), "every value waitFlush receives from the write trigger is used (returned): the trigger was armed for this Flush, dropping a value drops its completion or the close error", waitFlush, ins, used, "the received value is used", true)
		}
	}
	// a completion left over from a Flush that gave up (signalled between its last look at the one-slot trigger and its
	// PollRW2R) is taken out before write interest is armed again - the next Flush would otherwise take it for its own
	{
		isDrain := func(i ssa.Instruction) bool {
			sel, ok := i.(*ssa.Select)
			if !ok || sel.Blocking {
				return false
			}
			for _, st := range sel.States {
				if strings.HasSuffix(pathOf(st.Chan), ".writeTrigger") {
					return true
				}
			}
			return false
		}
		for _, arm := range findIns(flush, func(i ssa.Instruction) bool { return ro.isControl(i, ro.evR2RW) }) {
			r.precedes("C08.R3:stale-completion-cleared-before-arming", "before flush() arms write interest it empties the one-slot write trigger (non-blocking receive): a completion signalled after an earlier Flush had already timed out must not complete this one with its data unsent", flush, arm, isDrain, nil, "non-blocking receive on writeTrigger dominates Control(PollR2RW)")
		}
	}
	// ... and it always signals: the flusher parked in waitFlush has no other wake-up on the success path
	r.mustPass("C08.R2:rw2r-always-signals", "rw2r wakes the parked flusher on every path (the poller calls it when the output buffer was drained; nothing else completes a waiting Flush successfully)", rw2r, nil, []Start{Entry(rw2r)}, func(i ssa.Instruction) bool { return isCall(i, ro.triggerWrite) }, nil, nil, "triggerWrite(nil) on every path")
	// and the drain path calls it when the buffer is empty
	{
		outAck := w.MustFn("(*connection).outputAck")
		starts := edgesEstablishing(outAck, func(v ssa.Value) (bool, bool) {
			if isEmptyCall(v) {
				return true, true
			}
			return false, false
		})
		r.mustPass("C08.R2:drained-means-rw2r", "when the poller's send emptied the output buffer, outputAck calls rw2r() on every path", outAck, nil, starts, func(i ssa.Instruction) bool { return isCall(i, rw2r) }, nil, nil, "rw2r() on every path from IsEmpty()==true")
	}
	// waitFlush returns only what was received from the trigger, or a timeout error
	{
		nr := 0
		for _, ins := range allIns(waitFlush) {
			ret, ok := ins.(*ssa.Return)
			if !ok || len(ret.Results) != 1 {
				continue
			}
			nr++
			v := ret.Results[0]
			ok2 := false
			detail := shortVal(v)
			if u, isU := v.(*ssa.UnOp); isU && u.Op.String() == "<-" && pathHasSuffix(u.X, ".writeTrigger") {
				ok2 = true
			}
			if ex, isE := v.(*ssa.Extract); isE {
				if sel, isS := ex.Tuple.(*ssa.Select); isS && ex.Index >= 2 {
					st := sel.States[ex.Index-2]
					if pathHasSuffix(st.Chan, ".writeTrigger") {
						ok2 = true
					}
				}
			}
			if n, isExc := exceptionErrnoVal(w, v); isExc && n == w.ConstInt("ErrWriteTimeout") {
				ok2 = true
			}
			r.ob(fmt.Sprintf("C08.R2:waitFlush-return#%d", nr), "waitFlush() returns the value received from the write trigger or ErrWriteTimeout, nothing else", waitFlush, ret, ok2, "returns "+detail, true)
		}
	}

	// ---- R3 registration before wait -------------------------------------------------------------
	for _, site := range findIns(flush, func(i ssa.Instruction) bool { return isCall(i, waitFlush) }) {
		isReg := func(i ssa.Instruction) bool { return ro.isControl(i, ro.evR2RW) }
		r.precedes("C08.R3:register-before-wait", "write interest is registered (PollR2RW) before the flusher waits for the poller", flush, site, isReg, nil, "Control(PollR2RW) dominates waitFlush()")
		// its error is checked
		regs := findIns(flush, isReg)
		for _, reg := range regs {
			regV := reg.(ssa.Value)
			errNil := cmpAtom(func(v ssa.Value) bool { return v == regV }, isNilConst, eqRel)
			r.guarded("C08.R3:register-error-checked", "a failed registration is reported instead of waiting for a wake-up that cannot come", flush, site, errNil, nil, "waitFlush guarded by Control(...)==nil")
		}
	}
	for _, site := range callSitesOf(w, waitFlush) {
		r.ob("C08.R3:who-waits:"+w.FnName(site.Parent()), "waitFlush is called only by flush()", site.Parent(), site, site.Parent() == flush, "caller", false)
	}

	// ---- R4 timeout outcome ----------------------------------------------------------------------
	for i, site := range findIns(waitFlush, w.isException("ErrWriteTimeout")) {
		r.precedes(fmt.Sprintf("C08.R4:timeout-removes-write-interest#%d", i+1), "before ErrWriteTimeout is returned write interest is removed (PollRW2R): the poller must not keep draining the output buffer behind a caller who was told the flush failed", waitFlush, site,
			func(x ssa.Instruction) bool { return ro.isControl(x, ro.evRW2R) }, nil, "Control(PollRW2R) dominates the timeout return")
	}
	timerHygiene(r, waitFlush, "writeTimer", "C08")
	// a parked Flush is released by a close: the close wake-ups (shared with C07.R3)
	closeWakeRules(r, "C08.R4")

	// ---- R5 count plumbing (send side) -----------------------------------------------------------
	sendCountRules(r, "C08.R5")
}

func pathHasSuffix(v ssa.Value, suf string) bool {
	p := pathOf(v)
	return len(p) >= len(suf) && p[len(p)-len(suf):] == suf
}

func exceptionErrnoVal(w *World, v ssa.Value) (int64, bool) {
	c, ok := v.(*ssa.Call)
	if !ok {
		return 0, false
	}
	return exceptionErrno(w, c)
}

// sendCountRules: the count acknowledged to the output buffer is the count the kernel accepted.
func sendCountRules(r *Run, prefix string) {
	w := r.W
	flush := w.MustFn("(*connection).flush")
	outputAck := w.MustFn("(*connection).outputAck")
	sendmsg := w.MustFn("sendmsg")
	isOutM := func(m string) func(ssa.Instruction) bool {
		return func(i ssa.Instruction) bool {
			x, ok := callOnField(i, "connection", "outputBuffer")
			return ok && x == m
		}
	}
	// flush: Skip(n) with n = sendmsg's first result, guarded n > 0, then Release
	var send *ssa.Call
	forEachIns(flush, func(i ssa.Instruction) {
		if isCall(i, sendmsg) {
			send = i.(*ssa.Call)
		}
	})
	if send == nil {
		r.ob(prefix+":flush-sends", "flush() sends with sendmsg", flush, nil, false, "no sendmsg call", false)
	} else {
		sent := func(v ssa.Value) bool {
			ex, ok := v.(*ssa.Extract)
			return ok && ex.Tuple == ssa.Value(send) && ex.Index == 0
		}
		// the Skip may sit in flush itself or in a helper flush hands the count to
		ss := &Search{Fn: flush}
		skips := ss.Reachable([]Start{After(send)}, isOutM("Skip"))
		r.Visited += ss.Visited
		for _, sk := range skips {
			arg := argVal(callCommon(sk), 0)
			same := false
			for _, v := range resolveParamIn(arg, flush) {
				if sent(v) {
					same = true
				} else {
					same = false
					break
				}
			}
			r.ob(prefix+":flush-skips-sent-count", "flush() skips exactly the byte count sendmsg returned", sk.Parent(), sk, same, "Skip("+shortVal(arg)+")", true)
			pos := cmpAtom(func(v ssa.Value) bool { return v == arg || sent(v) }, isConstEq(0), gtRel)
			r.guarded(prefix+":flush-skip-guarded", "the skip happens only for n > 0", flush, sk, pos, nil, "guarded by n>0")
			r.mustPass(prefix+":flush-release-after-skip", "the skipped nodes are released (the sent memory is returned) on every path", sk.Parent(), sk, []Start{After(sk)}, isOutM("Release"), nil, nil, "Release() follows Skip()")
		}
		if len(skips) == 0 {
			r.ob(prefix+":flush-skips-sent-count", "flush() acknowledges what was sent", flush, nil, false, "no Skip call reachable after sendmsg", false)
		}
		// bytes passed to sendmsg come from the output buffer's GetBytes
		gb := findIns(flush, isOutM("GetBytes"))
		okSrc := len(gb) == 1 && argVal(&send.Call, 1) == gb[0].(ssa.Value)
		r.ob(prefix+":flush-sends-buffer", "the vectors sent are the output buffer's readable vectors", flush, send, okSrc, "sendmsg(fd, GetBytes(...))", true)
	}
	// outputAck(n): Skip(n) guarded n>0 then Release
	for _, sk := range findIns(outputAck, isOutM("Skip")) {
		arg := argVal(callCommon(sk), 0)
		_, isParam := arg.(*ssa.Parameter)
		r.ob(prefix+":outputAck-skips-its-argument", "outputAck(n) skips exactly n", outputAck, sk, isParam, "Skip("+shortVal(arg)+")", true)
		pos := cmpAtom(func(v ssa.Value) bool { return v == arg }, isConstEq(0), gtRel)
		r.guarded(prefix+":outputAck-skip-guarded", "outputAck skips only for n > 0", outputAck, sk, pos, nil, "guarded by n>0")
		r.mustPass(prefix+":outputAck-release-after-skip", "outputAck releases what it skipped", outputAck, sk, []Start{After(sk)}, isOutM("Release"), nil, nil, "Release() follows Skip()")
	}
	if len(findIns(outputAck, isOutM("Skip"))) == 0 {
		r.ob(prefix+":outputAck-skips-its-argument", "outputAck acknowledges what was sent", outputAck, nil, false, "no Skip call", false)
	}
	// after acknowledging, the emptiness test decides about rw2r on every path
	r.mustPass(prefix+":outputAck-rechecks-empty", "after acknowledging, outputAck always tests whether the buffer is drained (otherwise the flusher is never signalled)", outputAck, nil, []Start{Entry(outputAck)}, isLenReadIns, nil, nil, "IsEmpty() on every path")
	{
		rw2r := w.MustFn("(*connection).rw2r")
		starts := edgesEstablishing(outputAck, lenZeroFact(true))
		r.mustPass(prefix+":outputAck-signals-when-drained", "when outputAck finds the buffer drained it signals the flusher", outputAck, nil, starts, func(i ssa.Instruction) bool { return isCall(i, rw2r) }, nil, nil, "rw2r() on every path from the empty edge")
	}
}

// resolveParamIn: if v is a parameter of a helper that `caller` calls, return the arguments passed
// at those call sites (one level); otherwise v itself.
func resolveParamIn(v ssa.Value, caller *ssa.Function) []ssa.Value {
	p, ok := v.(*ssa.Parameter)
	if !ok || p.Parent() == caller {
		return []ssa.Value{v}
	}
	h := p.Parent()
	idx := -1
	for i, q := range h.Params {
		if q == p {
			idx = i
		}
	}
	var out []ssa.Value
	forEachIns(caller, func(i ssa.Instruction) {
		if c, ok := i.(*ssa.Call); ok && c.Call.StaticCallee() == h && idx >= 0 && idx < len(c.Call.Args) {
			out = append(out, c.Call.Args[idx])
		}
	})
	if len(out) == 0 {
		return []ssa.Value{v}
	}
	return out
}

// isTriggerValue: v is the value received from connection.writeTrigger by a (non-)blocking receive.
func isTriggerValue(v ssa.Value) bool {
	switch x := v.(type) {
	case *ssa.UnOp:
		return x.Op == token.ARROW && strings.HasSuffix(pathOf(x.X), ".writeTrigger")
	case *ssa.Extract:
		if sel, ok := x.Tuple.(*ssa.Select); ok {
			for _, st := range sel.States {
				if strings.HasSuffix(pathOf(st.Chan), ".writeTrigger") {
					return true
				}
			}
		}
	case *ssa.TypeAssert:
		return isTriggerValue(x.X)
	case *ssa.Call:
		// a module helper that does the (non-blocking) receive: each of its results is nil or a value taken from the trigger,
		// and at least one is the latter
		f := x.Call.StaticCallee()
		if f == nil || f.Blocks == nil || f.Pkg == nil || !isModulePkg(f.Pkg.Pkg) || f.Signature.Results().Len() != 1 {
			return false
		}
		some := false
		for _, b := range f.Blocks {
			ret, ok := b.Instrs[len(b.Instrs)-1].(*ssa.Return)
			if !ok {
				continue
			}
			for _, rv := range resultValues(ret, 0) {
				if isNilConst(rv) {
					continue
				}
				if _, isCall := rv.(*ssa.Call); isCall || !isTriggerValue(rv) {
					return false
				}
				some = true
			}
		}
		return some
	case *ssa.Phi:
		for _, e := range x.Edges {
			if !isTriggerValue(e) {
				return false
			}
		}
		return len(x.Edges) > 0
	}
	return false
}
