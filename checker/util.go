package main

import (
	"fmt"
	"go/token"
	"go/types"
	"sort"
	"strings"

	"golang.org/x/tools/go/ssa"
)

// Reachable collects every instruction satisfying pred that some path from the starts reaches
// (paths end at Stop instructions and cut edges as in Find).
func (s *Search) Reachable(starts []Start, pred func(ssa.Instruction) bool) []ssa.Instruction {
	var out []ssa.Instruction
	seen := map[ssa.Instruction]bool{}
	oldV, oldI := s.OnVisit, s.Interest
	s.OnVisit = func(ins ssa.Instruction) {
		if pred(ins) && !seen[ins] {
			seen[ins] = true
			out = append(out, ins)
		}
	}
	s.Interest = append(append([]func(ssa.Instruction) bool{}, oldI...), pred)
	s.Find(starts, nil, false)
	s.OnVisit, s.Interest = oldV, oldI
	return out
}

// mustPass records: every path from starts to a function exit passes an instruction matching
// `via` (or crosses an edge cut by cut).
func (r *Run) mustPass(key, rule string, fn *ssa.Function, at ssa.Instruction, starts []Start,
	via func(ssa.Instruction) bool, cut func(*ssa.If, ssa.Value, bool) bool, assume func(ssa.Value) (bool, bool), okDetail string) bool {
	if len(starts) == 0 {
		return r.ob(key, rule, fn, at, false, "no start point found for this rule (the construct it is anchored on is missing)", true)
	}
	ss := &Search{Fn: fn, Stop: via, CutEdge: cut, Assume: assume}
	wit := ss.Find(starts, nil, true)
	r.Visited += ss.Visited
	return r.obW(key, rule, fn, at, wit, okDetail)
}

// neverReach records: no path from starts reaches an instruction matching bad (paths end at stop).
func (r *Run) neverReach(key, rule string, fn *ssa.Function, at ssa.Instruction, starts []Start,
	bad func(ssa.Instruction) bool, stop func(ssa.Instruction) bool, cut func(*ssa.If, ssa.Value, bool) bool, assume func(ssa.Value) (bool, bool), okDetail string) bool {
	if len(starts) == 0 {
		return r.ob(key, rule, fn, at, false, "no start point found for this rule (the construct it is anchored on is missing)", true)
	}
	ss := &Search{Fn: fn, Stop: stop, CutEdge: cut, Assume: assume}
	wit := ss.Find(starts, bad, false)
	r.Visited += ss.Visited
	return r.obW(key, rule, fn, at, wit, okDetail)
}

// precedes records: every path from the function entry to site passes an instruction matching via.
func (r *Run) precedes(key, rule string, fn *ssa.Function, site ssa.Instruction, via func(ssa.Instruction) bool,
	assume func(ssa.Value) (bool, bool), okDetail string) bool {
	ss := &Search{Fn: fn, Stop: via, Assume: assume}
	wit := ss.Find([]Start{Entry(fn)}, func(ins ssa.Instruction) bool { return ins == site }, false)
	r.Visited += ss.Visited
	return r.obW(key, rule, fn, site, wit, okDetail)
}

// guarded records: every path from entry to site crosses an edge establishing the fact.
func (r *Run) guarded(key, rule string, fn *ssa.Function, site ssa.Instruction, a Atom, assume func(ssa.Value) (bool, bool), okDetail string) bool {
	base := &Search{Fn: fn, Assume: assume}
	wit := guardWitness(fn, site, a, base)
	r.Visited += base.Visited
	if wit != nil && assume == nil && r.helperGuarded(fn, a, 0) {
		// the site sits in a private helper (extracted statements): the fact is established at every call site instead
		wit, okDetail = nil, okDetail+" - established at every call site of the private helper "+r.W.FnName(fn)
	}
	return r.obW(key, rule, fn, site, wit, okDetail)
}

// helperGuarded: fn is a private helper (named, unexported, never used as a value, not reachable through a module
// interface) and every one of its call sites is reached only over an edge establishing the fact - directly or, one level
// up, because the caller is such a helper itself.
func (r *Run) helperGuarded(fn *ssa.Function, a Atom, depth int) bool {
	w := r.W
	if depth > 1 || fn.Parent() != nil || token.IsExported(fn.Name()) {
		return false
	}
	ci := w.callerIndex()[fn]
	if ci == nil || ci.asValue || len(ci.callers) == 0 || w.ifaceMethods[fn.Name()] {
		return false
	}
	for caller := range ci.callers {
		if caller == fn {
			return false
		}
		for _, site := range findIns(caller, func(i ssa.Instruction) bool { cc := callCommon(i); return cc != nil && cc.StaticCallee() == fn }) {
			if _, isGo := site.(*ssa.Go); isGo {
				return false // another goroutine: what the caller established does not carry over
			}
			if _, isDefer := site.(*ssa.Defer); isDefer {
				return false
			}
			base := &Search{Fn: caller}
			wit := guardWitness(caller, site, a, base)
			r.Visited += base.Visited
			if wit != nil && !r.helperGuarded(caller, a, depth+1) {
				return false
			}
		}
	}
	return true
}

func cutOn(a Atom) func(*ssa.If, ssa.Value, bool) bool {
	return func(ifi *ssa.If, cond ssa.Value, branch bool) bool { return implies(cond, branch, a) }
}

func findIns(fn *ssa.Function, pred func(ssa.Instruction) bool) []ssa.Instruction {
	var out []ssa.Instruction
	forEachIns(fn, func(ins ssa.Instruction) {
		if pred(ins) {
			out = append(out, ins)
		}
	})
	return out
}

func startsAfter(inss []ssa.Instruction) []Start {
	var out []Start
	for _, i := range inss {
		out = append(out, After(i))
	}
	return out
}

func isIns(x ssa.Instruction) func(ssa.Instruction) bool {
	return func(i ssa.Instruction) bool { return i == x }
}

func anyOf(ps ...func(ssa.Instruction) bool) func(ssa.Instruction) bool {
	return func(i ssa.Instruction) bool {
		for _, p := range ps {
			if p != nil && p(i) {
				return true
			}
		}
		return false
	}
}

// callsNamed: a plain call whose static callee has the given relative name, e.g. "(*connection).flush".
func (w *World) callsNamed(name string) func(ssa.Instruction) bool {
	fn := w.Fn(name)
	return func(ins ssa.Instruction) bool { return fn != nil && isCall(ins, fn) }
}

// ---------------------------------------------------------------------------------------------
// channel operations
// ---------------------------------------------------------------------------------------------

// recvMatchers builds (stop, cut) recognising "a value was received from the channel whose
// access path ends with suffix" - either a plain receive or the corresponding select case edge.
func recvMatchers(fn *ssa.Function, suffix string) (stop func(ssa.Instruction) bool, cut func(*ssa.If, ssa.Value, bool) bool, n int) {
	type selCase struct {
		sel *ssa.Select
		idx int64
	}
	var cases []selCase
	forEachIns(fn, func(ins ssa.Instruction) {
		switch x := ins.(type) {
		case *ssa.UnOp:
			if x.Op == token.ARROW && strings.HasSuffix(pathOf(x.X), suffix) {
				n++
			}
		case *ssa.Select:
			for i, st := range x.States {
				if st.Dir == types.RecvOnly && strings.HasSuffix(pathOf(st.Chan), suffix) {
					cases = append(cases, selCase{x, int64(i)})
					n++
				}
			}
		}
	})
	stop = func(ins ssa.Instruction) bool {
		u, ok := ins.(*ssa.UnOp)
		return ok && u.Op == token.ARROW && strings.HasSuffix(pathOf(u.X), suffix)
	}
	atom := func(v ssa.Value) (bool, bool) {
		x, k, eq, ok := cmpConst(v)
		if !ok {
			return false, false
		}
		ex, ok := x.(*ssa.Extract)
		if !ok || ex.Index != 0 {
			return false, false
		}
		for _, c := range cases {
			if ex.Tuple == ssa.Value(c.sel) && c.idx == k {
				return eq, true
			}
		}
		return false, false
	}
	cut = cutOn(atom)
	return
}

// isBlockingOp: a blocking receive/send or a blocking select.
func isBlockingOp(ins ssa.Instruction) bool {
	switch x := ins.(type) {
	case *ssa.UnOp:
		return x.Op == token.ARROW
	case *ssa.Select:
		return x.Blocking
	case *ssa.Send:
		return true
	}
	return false
}

// exceptionErrno: ins is a call Exception(<errno constant>, ...); returns the errno value.
func exceptionErrno(w *World, ins ssa.Instruction) (int64, bool) {
	exc := w.Fn("Exception")
	c, ok := ins.(*ssa.Call)
	if !ok || exc == nil || c.Call.StaticCallee() != exc {
		return 0, false
	}
	v := c.Call.Args[0]
	if mi, ok := v.(*ssa.MakeInterface); ok {
		v = mi.X
	}
	return constInt(v)
}

func (w *World) isException(name string) func(ssa.Instruction) bool {
	k := w.ConstInt(name)
	return func(ins ssa.Instruction) bool {
		n, ok := exceptionErrno(w, ins)
		return ok && n == k
	}
}

// ---------------------------------------------------------------------------------------------
// calls on a field of the receiver: c.inputBuffer.X(...)
// ---------------------------------------------------------------------------------------------

// callOnField reports whether ins is a call whose receiver is loaded from struct field typ.field;
// it returns the method name.
func callOnField(ins ssa.Instruction, typ, field string) (method string, ok bool) {
	cc := callCommon(ins)
	if cc == nil {
		return "", false
	}
	rv := recvVal(cc)
	if rv == nil {
		return "", false
	}
	// promoted methods on SafeLinkBuffer: receiver may be &x.UnsafeLinkBuffer
	for {
		if fa, ok := rv.(*ssa.FieldAddr); ok {
			if tn, _, _, _ := fieldOf(fa); tn == "SafeLinkBuffer" {
				rv = fa.X
				continue
			}
		}
		break
	}
	if _, ok := loadOfField(rv, typ, field); !ok {
		return "", false
	}
	if cc.IsInvoke() {
		return cc.Method.Name(), true
	}
	return cc.StaticCallee().Name(), true
}

// lenCall: v is a call of Len() on anything (buffer or Reader).
func isLenCall(v ssa.Value) bool {
	c, ok := v.(*ssa.Call)
	if !ok {
		return false
	}
	if c.Call.IsInvoke() {
		return c.Call.Method.Name() == "Len"
	}
	f := c.Call.StaticCallee()
	return f != nil && f.Name() == "Len" && f.Signature.Recv() != nil && !isPointerToNamed(f.Signature.Recv().Type(), "linkBufferNode")
}

func isEmptyCall(v ssa.Value) bool {
	c, ok := v.(*ssa.Call)
	if !ok {
		return false
	}
	if c.Call.IsInvoke() {
		return c.Call.Method.Name() == "IsEmpty"
	}
	f := c.Call.StaticCallee()
	return f != nil && f.Name() == "IsEmpty" && f.Signature.Recv() != nil && !isPointerToNamed(f.Signature.Recv().Type(), "linkBufferNode")
}

// zeroLenFact: the buffer length was observed to be zero (empty=true) or positive (empty=false).
func lenZeroFact(empty bool) Atom {
	return anyAtom(
		func(v ssa.Value) (bool, bool) {
			if isEmptyCall(v) {
				return empty, true
			}
			return false, false
		},
		cmpAtom(isLenCall, isConstEq(0), func(op token.Token) (bool, bool) {
			switch op {
			case token.EQL, token.LEQ:
				return empty, true
			case token.NEQ, token.GTR:
				return !empty, true
			}
			return false, false
		}),
		cmpAtom(isLenCall, isConstEq(1), func(op token.Token) (bool, bool) {
			switch op {
			case token.LSS:
				return empty, true
			case token.GEQ:
				return !empty, true
			}
			return false, false
		}),
	)
}

// lenLessFact: "Len() < x" was observed for a non-constant x (the wanted size).
func lenLessFact() Atom {
	notConst := func(v ssa.Value) bool { _, c := v.(*ssa.Const); return !c }
	return cmpAtom(isLenCall, notConst, func(op token.Token) (bool, bool) {
		switch op {
		case token.LSS:
			return true, true
		case token.GEQ:
			return false, true
		}
		return false, false
	})
}

// nilCmpFact: load of field typ.field compared with nil; fact "is non-nil" when want=true.
func fieldNonNilFact(typ, field string) Atom {
	isLoad := func(v ssa.Value) bool { _, ok := loadOfField(v, typ, field); return ok }
	return cmpAtom(isLoad, isNilConst, neqRel)
}

func ordinal(i int) string { return fmt.Sprintf("#%d", i+1) }

// resultValues resolves the idx-th result of a return, seeing through the defer-spilled form
// (named result cell stored just before rundefers and re-loaded for the return).
func resultValues(ret *ssa.Return, idx int) []ssa.Value {
	v := ret.Results[idx]
	u, ok := v.(*ssa.UnOp)
	if !ok || u.Op != token.MUL {
		return []ssa.Value{v}
	}
	a, ok := u.X.(*ssa.Alloc)
	if !ok {
		return []ssa.Value{v}
	}
	b := ret.Block()
	pos := -1
	for i, ins := range b.Instrs {
		if ins == ssa.Instruction(u) {
			pos = i
		}
	}
	for i := pos - 1; i >= 0; i-- {
		if st, ok := b.Instrs[i].(*ssa.Store); ok && st.Addr == ssa.Value(a) {
			return []ssa.Value{st.Val}
		}
	}
	// no store in this block: any store in the function may reach
	var out []ssa.Value
	for _, ref := range *a.Referrers() {
		if st, ok := ref.(*ssa.Store); ok && st.Addr == ssa.Value(a) {
			out = append(out, st.Val)
		}
	}
	if len(out) == 0 {
		out = append(out, v)
	}
	return out
}

// lastResultAll: every possible value of the last result of ret satisfies pred.
func lastResultAll(ret *ssa.Return, pred func(ssa.Value) bool) bool {
	if len(ret.Results) == 0 {
		return false
	}
	for _, v := range resultValues(ret, len(ret.Results)-1) {
		if !pred(v) {
			return false
		}
	}
	return true
}

// seeThroughCell: if v is a load of a local cell, return the value most recently stored to the
// cell in the same block (defer-spilled named results), else v.
func seeThroughCell(v ssa.Value) ssa.Value {
	u, ok := v.(*ssa.UnOp)
	if !ok || u.Op != token.MUL {
		return v
	}
	a, ok := u.X.(*ssa.Alloc)
	if !ok {
		return v
	}
	b := u.Block()
	pos := -1
	for i, ins := range b.Instrs {
		if ins == ssa.Instruction(u) {
			pos = i
		}
	}
	for i := pos - 1; i >= 0; i-- {
		if st, ok := b.Instrs[i].(*ssa.Store); ok && st.Addr == ssa.Value(a) {
			return st.Val
		}
	}
	return v
}

// optionPlumbed records: the value an option constructor (WithXxx) stores into a field of the options struct is the value
// handed to the connection's setter when a connection is prepared - the field is found from the constructor, not by name.
func (r *Run) optionPlumbed(key, rule, withName, setterName string) {
	w := r.W
	with := w.MustFn(withName)
	setter := w.MustFn(setterName)
	field := ""
	for _, anon := range with.AnonFuncs {
		forEachIns(anon, func(i ssa.Instruction) {
			st, ok := i.(*ssa.Store)
			if !ok {
				return
			}
			if tn, f, _, ok := fieldOf(st.Addr); ok && tn == "options" {
				field = f
			}
		})
	}
	if field == "" {
		r.ob(key, rule, with, nil, false, withName+" stores into no field of options", false)
		return
	}
	var at ssa.Instruction
	for _, site := range callSitesOf(w, setter) {
		args := callCommon(site).Args
		if len(args) < 2 {
			continue
		}
		if _, ok := loadOfField(args[1], "options", field); ok {
			at = site
		}
	}
	var fn *ssa.Function
	if at != nil {
		fn = at.Parent()
	}
	r.ob(key, rule, fn, at, at != nil, fmt.Sprintf("%s stores options.%s; %s(opts.%s) is called when a connection is prepared", withName, field, setter.Name(), field), false)
}

// fieldOfLoad: v is a load of struct field typ.field (also of a by-value struct parameter spilled to a local).
func fieldOfLoad(v ssa.Value, typ, field string) (string, string, ssa.Value, bool) {
	switch x := v.(type) {
	case *ssa.UnOp:
		if x.Op == token.MUL {
			if tn, f, base, ok := fieldOf(x.X); ok && tn == typ && f == field {
				return tn, f, base, true
			}
		}
	case *ssa.Field:
		if namedTypeName(x.X.Type()) == typ {
			st, ok := x.X.Type().Underlying().(*types.Struct)
			if ok && st.Field(x.Field).Name() == field {
				return typ, field, x.X, true
			}
		}
	}
	return "", "", nil, false
}

// setterStores records: the named setter stores into connection.<field> on every path.
func (r *Run) setterStores(key, rule, fnName, field string) {
	fn := r.W.MustFn(fnName)
	r.mustPass(key, rule, fn, nil, []Start{Entry(fn)}, func(i ssa.Instruction) bool {
		return isStoreToField(i, "connection", field) || isStoreToField(i, "connState", field)
	}, nil, nil, "store to "+field+" on every path")
}

func sortedKeys(m map[int64]bool) []int64 {
	var out []int64
	for k := range m {
		out = append(out, k)
	}
	sort.Slice(out, func(i, j int) bool { return out[i] < out[j] })
	return out
}

// setterAdmitsZero records: the store of the setter's argument into connection.<field> is reached for the value 0
// (every comparison of the parameter with a constant on the way to the store is true for 0 on the branch taken).
func setterAdmitsZero(r *Run, key, fnName, field string) {
	fn := r.W.MustFn(fnName)
	for _, ins := range allIns(fn) {
		st, ok := ins.(*ssa.Store)
		if !ok || !isStoreToField(ins, "connection", field) {
			continue
		}
		if _, isParam := st.Val.(*ssa.Parameter); !isParam {
			continue
		}
		admits := true
		detail := "unconditional store"
		for _, g := range guardChain(ins.Block()) {
			b, ok := g.Cond.(*ssa.BinOp)
			if !ok {
				continue
			}
			if b.X != st.Val {
				continue
			}
			k, okc := constInt(b.Y)
			if !okc {
				continue
			}
			var truth bool
			switch b.Op {
			case token.GEQ:
				truth = 0 >= k
			case token.GTR:
				truth = 0 > k
			case token.LEQ:
				truth = 0 <= k
			case token.LSS:
				truth = 0 < k
			case token.EQL:
				truth = 0 == k
			case token.NEQ:
				truth = 0 != k
			default:
				continue
			}
			detail = fmt.Sprintf("guard %s %d on the %v branch", b.Op, k, g.Branch)
			if truth != g.Branch {
				admits = false
			}
		}
		r.ob(key, "the timeout setter stores a zero duration too: 0 is how a timeout that was set is cleared again (a read or flush after SetXTimeout(0) waits without limit)", fn, ins, admits, detail, true)
	}
}

// phiLeaves flattens one or two levels of phi nodes.
func phiLeaves(v ssa.Value) []ssa.Value {
	var out []ssa.Value
	var walk func(x ssa.Value, d int)
	seen := map[ssa.Value]bool{}
	walk = func(x ssa.Value, d int) {
		if seen[x] {
			return
		}
		seen[x] = true
		if ph, ok := x.(*ssa.Phi); ok && d < 3 {
			for _, e := range ph.Edges {
				walk(e, d+1)
			}
			return
		}
		out = append(out, x)
	}
	walk(v, 0)
	return out
}
