package main

import (
	"golang.org/x/tools/go/ssa"
)

func init() {
	register("C04",
		"Decides only the count plumbing and serialisation points on which stream integrity rests - NOT the identity of the delivered bytes: (R1) send side - flush() and the poller's outputAck skip exactly the count the send syscall returned (guarded n>0) and release what was skipped; the dispatch functions pass iosend's count to OutputAck and send the vectors Outputs returned; (R2) receive side - the dispatch functions and readall pass ioread's count to InputAck after every read, reading into the vectors Inputs returned; inputAck(n) acknowledges n to the buffer (bookAck(n); bookAck(0) for n<=0) before anything else and inputs() reserves through book(); (R3) the input buffer has a single producer (book/bookAck are called only from inputs/inputAck) and the reader touches its tail only under the slot token; (R4) the socket is drained (readall) before a hang-up is honoured; (R5) the flush hand-off: registration before waiting, completion signalled only when the output buffer is empty. Also re-evaluated here: the epoll interest masks and the filled-array dispatch (C11.R6), SetOnRequest's store-then-test (C06.R3), hang-up offering buffered input (C06.R4), pending-byte accounting (C01.R8), heap private copies (C03.R4). Not decided: byte identity, short-write boundaries, iovec arithmetic, interleavings of reader and poller on the lock-free input buffer. A pass means the counts and serialisation points are wired correctly, nothing more.",
		[]string{"readv/sendmsg return the number of bytes transferred", "the poller invokes Inputs/InputAck/Outputs/OutputAck only with the slot token held (C10)"},
		func(r *Run) {
			cfgs := []string{"linux", "darwin"}
			if r.Tier == "thorough" {
				cfgs = []string{"linux", "linux-race", "darwin", "freebsd"}
			}
			for _, c := range cfgs {
				if r.useOpt(c) == nil {
					continue
				}
				c04(r)
			}
		})
}

func c04(r *Run) {
	w := r.W
	// ---- R1 send side ------------------------------------------------------------------------------
	sendCountRules(r, "C04.R1")
	disp, _ := dispatchFn(w)
	ackRules(r, "C04.R12", disp)
	ackRules(r, "C04.R12", w.MustFn("readall"))

	// ---- R2 receive side: inputAck / inputs ----------------------------------------------------------
	inputAck := w.MustFn("(*connection).inputAck")
	inputs := w.MustFn("(*connection).inputs")
	isBuf := func(m string) func(ssa.Instruction) bool {
		return func(i ssa.Instruction) bool {
			x, ok := callOnField(i, "connection", "inputBuffer")
			return ok && x == m
		}
	}
	acks := findIns(inputAck, isBuf("bookAck"))
	if len(acks) < 1 {
		r.ob("C04.R2:inputAck-acknowledges", "inputAck acknowledges the received count to the input buffer", inputAck, nil, false, "no bookAck call", false)
	}
	r.mustPass("C04.R2:inputAck-always-acknowledges", "every inputAck ends the reservation made by inputs()/book() - also for n <= 0 (EAGAIN, EOF, error): otherwise the reserved region would be counted by the next acknowledge", inputAck, nil, []Start{Entry(inputAck)}, isBuf("bookAck"), nil, nil, "bookAck on every path")
	for i, a := range acks {
		arg := argVal(callCommon(a), 0)
		_, isParam := arg.(*ssa.Parameter)
		k, isConst := constInt(arg)
		r.ob("C04.R2:inputAck-count"+ordinal(i), "the count acknowledged to the buffer is the count the poller passed (or 0 on the n<=0 branch)", inputAck, a, isParam || (isConst && k == 0), "bookAck("+shortVal(arg)+")", true)
		if isConst && k == 0 {
			nonPos := func(v ssa.Value) (bool, bool) {
				b, ok := v.(*ssa.BinOp)
				if !ok {
					return false, false
				}
				if _, isP := b.X.(*ssa.Parameter); isP && isConstEq(0)(b.Y) {
					switch b.Op.String() {
					case "<=":
						return true, true
					case ">":
						return false, true
					}
				}
				return false, false
			}
			r.guarded("C04.R2:zero-ack-only-when-nothing-read"+ordinal(i), "bookAck(0) is used only when nothing was read", inputAck, a, nonPos, nil, "guarded by n <= 0")
		}
		// nothing that publishes or starts handlers precedes the acknowledge
		r.neverReach("C04.R2:ack-first"+ordinal(i), "the acknowledge is not repeated on a path", inputAck, a, []Start{After(a)}, isBuf("bookAck"), nil, nil, nil, "no second bookAck")
	}
	books := findIns(inputs, isBuf("book"))
	r.ob("C04.R2:inputs-reserves", "inputs() hands the poller memory reserved in the input buffer (book)", inputs, nil, len(books) == 1, "one book() call", false)

	// ---- R3 single producer ---------------------------------------------------------------------------
	for _, m := range []string{"book", "bookAck"} {
		fn := w.MustFn("(*UnsafeLinkBuffer)." + m)
		allowed := map[string]bool{"(*connection).inputs": m == "book", "(*connection).inputAck": m == "bookAck"}
		n := 0
		for _, f := range w.Funcs {
			for _, site := range findIns(f, func(i ssa.Instruction) bool {
				c := calleeOf(i)
				return c != nil && c.Name() == m && c.Signature.Recv() != nil && (c == fn || isPointerToNamed(c.Signature.Recv().Type(), "SafeLinkBuffer"))
			}) {
				name := w.FnName(f)
				if f.Signature.Recv() != nil && isPointerToNamed(f.Signature.Recv().Type(), "SafeLinkBuffer") {
					continue // the locked override delegating to the unsafe method
				}
				n++
				r.ob("C04.R3:single-producer:"+m+":"+name, "the input buffer's reserve/acknowledge pair is used only by the connection's poller callbacks (one producer)", f, site, allowed[name], "caller "+name, false)
			}
		}
		if n == 0 {
			r.ob("C04.R3:single-producer:"+m, "the producer pair is used", fn, nil, false, "no caller", false)
		}
	}
	r.borrow([]string{"C10.R4:tail-reset-under-token", "C10.R4:Release-returns-token"}, "C10.R4", "C04.R3", func() { c10ConnSide(r) })

	// bytes sent before the sender closed are offered to the handler before end-of-stream (C06.R4)
	if w.Cfg.Name == "linux" {
		r.borrow([]string{"C06.R4:"}, "C06.R4", "C04.R4", func() { c06(r) })
		// a handler installed late still gets what was buffered before it (C06.R3)
		r.borrow([]string{"C06.R3:SetOnRequest"}, "C06.R3", "C04.R7", func() { c06(r) })
		// a delivery that found the buffer empty starts the handler, and a task that gives the lock back looks again (C06.R2/R3)
		r.borrow([]string{"C06.R2:exit-only-if-drained", "C06.R2:reread-len-after-unlock", "C06.R3:try-when-was-empty"}, "C06.R", "C04.R7.", func() { c06(r) })
		// the private copies handed to the reader are not recycled under it (C03.R4)
		r.borrow([]string{"C03.R4:private-copy-is-heap"}, "C03.R4", "C04.R8", func() { c03(r) })
		// the sender's nodes keep their memory until it was sent: split ownership (C02.R4 / C03)
		r.borrow([]string{"C02.R4:WriteDirect:unlinked-split"}, "C02.R4", "C04.R1", func() { c02(r) })
	}

	if w.Cfg.Name == "linux" {
		// the reader side: bytes that arrived before the close are delivered before end-of-stream is reported (C07.R5), and the
		// buffer's accounting primitives are used by every consuming method (C01.R2/R3)
		r.borrow([]string{"C07.R5:closed-only-when-short", "C07.R5:timeout-only-when-short"}, "C07.R5", "C04.R4", func() { c07(r) })
		r.borrow([]string{"C01.R2:", "C01.R3:", "C01.R5:", "C01.R8:"}, "C01.R", "C04.R6.", func() { c01(r) })
	}

	// ---- R4 hang-up after drain; R5 flush hand-off ----------------------------------------------------
	r.borrow([]string{"C11.R6:interest-mask", "C11.R6:batch-dispatched"}, "C11.R6", "C04.R9", func() { c11(r) })
	r.borrow([]string{"C11.R3:drain-before-hup", "C11.R3:drained-count-feeds-decision", "C11.R3:hup-verdict-has-reason"}, "C11.R3", "C04.R4", func() { c11(r) })
	if w.Cfg.Name == "linux" || w.Cfg.Name == "darwin" {
		r.borrow([]string{"C08.R2:signal-only-when-drained", "C08.R2:flush-return", "C08.R2:Flush-has-no-success-of-its-own", "C08.R3:register-before-wait", "C08.R2:rw2r-order"}, "C08.R", "C04.R5.", func() { c08(r) })
	}
}
