package main

import (
	"fmt"
	"go/token"
	"go/types"
	"strings"

	"golang.org/x/tools/go/ssa"
)

func init() {
	register("C13",
		"Decides the structural premises of server tracking and graceful shutdown: onAccept registers the untrack callback after init (LIFO: it runs before the finalizer closes the descriptor), stores the connection, then re-reads IsActive() and untracks a connection that was closed meanwhile; untracking is only done by that callback and that re-check; Shutdown detaches the listener and closes it before scanning, returns nil only under activeConn==0, returns ctx.Err() on ctx.Done(), closes a tracked connection only when it is idle, counts every other one as active; idle means processing unlocked and both buffers empty; Serve's quit channel has capacity 1, quit never blocks and is reachable from Shutdown, OnHup and the accept-error path; after the EMFILE detach the retry goroutine's only exit re-arms the listener. server.Close publishes a closing mark before it sweeps and onAccept re-reads it after its Store (F19); FDOperator.Control forwards everything but a repeated detach; eventLoop.svr is cleared only by the Shutdown that took it; the close-callback walk is complete. Not decided: timing, the number of polls before the deadline, descriptor table contents.",
		[]string{"sync.Map operations are linearizable", "accepts on one listener are serial (single poller slot)"},
		func(r *Run) {
			cfgs := []string{"linux"}
			if r.Tier == "thorough" {
				cfgs = []string{"linux", "linux-race", "darwin"}
			}
			for _, c := range cfgs {
				if r.useOpt(c) == nil {
					continue
				}
				c13(r)
			}
		})
}

func isMapOp(i ssa.Instruction, op, field string) bool {
	cc := callCommon(i)
	if cc == nil {
		return false
	}
	f := cc.StaticCallee()
	if f == nil || f.Pkg == nil || f.Pkg.Pkg.Path() != "sync" || f.Name() != op {
		return false
	}
	return strings.HasSuffix(pathOf(cc.Args[0]), "."+field)
}

func c13(r *Run) {
	w := r.W
	ro := r.roles()
	onAccept := w.MustFn("(*server).onAccept")
	initFn := w.MustFn("(*connection).init")
	addCb := w.MustFn("(*connection).AddCloseCallback")
	srvClose := w.MustFn("(*server).Close")

	// ---- R1 / R2 tracking ------------------------------------------------------------------------
	stores := findIns(onAccept, func(i ssa.Instruction) bool { return isMapOp(i, "Store", "connections") })
	if len(stores) != 1 {
		r.absentf(" C13: %d connections.Store sites in onAccept", len(stores))
	}
	store := stores[0]
	inits := findIns(onAccept, func(i ssa.Instruction) bool { return isCall(i, initFn) })
	adds := findIns(onAccept, func(i ssa.Instruction) bool { return isCall(i, addCb) })
	if len(inits) != 1 || len(adds) < 1 {
		r.absentf(" C13: onAccept has %d init and %d AddCloseCallback calls", len(inits), len(adds))
	}
	// the untrack callback: the closure passed to AddCloseCallback that deletes from the map
	var untrack *ssa.Function
	var addSite ssa.Instruction
	for _, a := range adds {
		if f := makeClosureFn(argVal(callCommon(a), 0)); f != nil {
			if len(findIns(f, func(i ssa.Instruction) bool { return isMapOp(i, "Delete", "connections") })) > 0 {
				untrack, addSite = f, a
			}
		}
	}
	r.ob("C13.R2:untrack-callback-exists", "onAccept registers a close callback that removes the connection from the server's map", onAccept, nil, untrack != nil, "AddCloseCallback(func{connections.Delete(fd)})", false)
	if untrack != nil {
		r.precedes("C13.R2:untrack-after-init", "the untrack callback is registered after init() registered the finalizer: callbacks run in reverse order, so the connection is untracked before its descriptor is closed and its number can be reused by the next accept", onAccept, addSite, isIns(inits[0]), nil, "init() dominates AddCloseCallback(untrack)")
		r.precedes("C13.R2:untrack-before-store", "the untrack callback exists before the connection is stored (a close right after the store finds it)", onAccept, store, isIns(addSite), nil, "AddCloseCallback dominates Store")
		// the key deleted is the key stored
		var delKey, stKey ssa.Value
		forEachIns(untrack, func(i ssa.Instruction) {
			if isMapOp(i, "Delete", "connections") {
				delKey = callCommon(i).Args[1]
			}
		})
		stKey = callCommon(store).Args[1]
		same := delKey != nil && stKey != nil && sameCapturedValue(delKey, stKey, untrack)
		r.ob("C13.R2:same-key", "the callback deletes the key under which the connection was stored", onAccept, store, same, "Delete(fd) / Store(fd, conn) use the same value", true)
	}
	// R1 re-check after the store
	{
		ss := &Search{Fn: onAccept, Stop: func(i ssa.Instruction) bool { return isCall(i, ro.isActive) }}
		wit := ss.Find([]Start{After(store)}, nil, true)
		r.Visited += ss.Visited
		r.obW("C13.R1:onAccept:recheck-after-store", "after storing the connection onAccept re-reads IsActive(): the connection is already live in a poller, so its close callbacks may have run before the untrack callback was registered", onAccept, store, wit, "IsActive() on every path after the Store")
		ss2 := &Search{Fn: onAccept, Stop: func(i ssa.Instruction) bool { return isCall(i, ro.isActive) }}
		first := ss2.Reachable([]Start{After(store)}, func(i ssa.Instruction) bool { return isCall(i, ro.isActive) })
		var starts []Start
		for _, e := range edgesEstablishing(onAccept, callResultAtom(ro.isActive, false)) {
			if condUsesAny(edgeCond(e), first) {
				starts = append(starts, e)
			}
		}
		r.mustPass("C13.R1:onAccept:untrack-when-closed", "when that re-check finds the connection closed it is removed from the map (nobody else will)", onAccept, store, starts,
			func(i ssa.Instruction) bool { return isMapOp(i, "Delete", "connections") }, nil, nil, "connections.Delete on every path from the closed edge")
	}
	// after the store onAccept goes on without untracking only on an edge where it observed the connection ACTIVE
	{
		ss := &Search{Fn: onAccept, Stop: func(i ssa.Instruction) bool { return isMapOp(i, "Delete", "connections") }, CutEdge: cutOn(activeFact(ro))}
		wit := ss.Find([]Start{After(store)}, nil, true)
		r.Visited += ss.Visited
		r.obW("C13.R1:onAccept:stays-tracked-only-if-active", "a stored connection stays tracked only on an edge where onAccept observed it active after the store: any close (by the peer, by OnPrepare's user code, ...) that happened before the untrack callback existed is untracked here", onAccept, store, wit, "connections.Delete, or an active observation, on every path after the Store")
	}
	// ... and the same Dekker pair against Shutdown: Close publishes "closing" before it sweeps the map, onAccept stores and then
	// re-reads it - an accept that is already past Accept() when Shutdown runs is either seen by the sweep or closes its
	// connection itself; otherwise Shutdown returns nil with a connection that is stored afterwards and lives on
	{
		flagOf := func(i ssa.Instruction, ops ...string) string {
			a := asAtomic(i)
			if a == nil {
				return ""
			}
			for _, op := range ops {
				if a.Op == op {
					if f := structFieldOfAddr(a.Addr); strings.HasPrefix(f, "server.") {
						return f
					}
				}
			}
			return ""
		}
		ranges := findIns(srvClose, func(i ssa.Instruction) bool { return isMapOp(i, "Range", "connections") })
		flag := ""
		var pub ssa.Instruction
		forEachIns(srvClose, func(i ssa.Instruction) {
			if f := flagOf(i, "Store", "Add", "CompareAndSwap", "Swap"); f != "" && flag == "" {
				okAll := len(ranges) > 0
				for _, rg := range ranges {
					ss := &Search{Fn: srvClose, Stop: isIns(i)}
					if ss.Find([]Start{Entry(srvClose)}, isIns(rg), false) != nil {
						okAll = false
					}
					r.Visited += ss.Visited
				}
				if okAll {
					flag, pub = f, i
				}
			}
		})
		r.ob("C13.R1:shutdown-published-before-sweep", "server.Close marks the server as closing (an atomic write to a server field) before it sweeps the tracked connections", srvClose, pub, flag != "", "atomic write of "+flag+" dominates connections.Range", true)
		if flag != "" {
			r.mustPass("C13.R1:onAccept:recheck-shutdown-after-store", "after storing the connection onAccept re-reads the server's closing mark on every path (publish, then check - on both sides)", onAccept, store, []Start{After(store)},
				func(i ssa.Instruction) bool { return flagOf(i, "Load") == flag || isMapOp(i, "Delete", "connections") }, nil, nil, "Load("+flag+") (or the untracking of an already closed connection) on every path after the Store")
			loads := findIns(onAccept, func(i ssa.Instruction) bool { return flagOf(i, "Load") == flag })
			isLoad := func(v ssa.Value) bool {
				for _, l := range loads {
					if v == l.(ssa.Value) {
						return true
					}
				}
				return false
			}
			set := cmpAtom(isLoad, isConstEq(0), neqRel)
			starts := edgesEstablishing(onAccept, set)
			r.mustPass("C13.R1:onAccept:closes-when-shut-down", "when the server is found closing the freshly stored connection is closed (Shutdown's sweep may already be over)", onAccept, store, starts,
				func(i ssa.Instruction) bool { return isCall(i, w.Fn("(*connection).Close")) }, nil, nil, "connection.Close() on every path from the closing edge")
		}
	}
	// a connection that OnPrepare closed is not tracked
	r.guarded("C13.R1:track-only-active", "a connection closed during OnPrepare is not tracked", onAccept, store, callResultAtom(ro.isActive, true), nil, "Store guarded by IsActive()")
	// onConnect is fired for tracked connections
	{
		ss := &Search{Fn: onAccept}
		_ = ss
		starts := edgesEstablishing(onAccept, callResultAtom(ro.isActive, true))
		r.mustPass("C13.R1:tracked-goes-through-onConnect", "every connection that is tracked (and still open) goes on to onConnect()", onAccept, nil, []Start{After(store)}, func(i ssa.Instruction) bool {
			// ... or onAccept closes the connection itself (seen closed, or the server is shutting down)
			return isCall(i, ro.onConnectM) || isCall(i, w.Fn("(*connection).Close"))
		}, cutOn(closedFact(ro)), nil, "onConnect() on every path after the Store (unless the connection was seen closed or is closed right here)")
		_ = starts
	}
	// who touches the map
	for _, f := range w.Funcs {
		for _, ins := range findIns(f, func(i ssa.Instruction) bool {
			return isMapOp(i, "Delete", "connections") || isMapOp(i, "Store", "connections")
		}) {
			ok := f == onAccept || f == untrack
			r.ob("C13.R1:who-tracks:"+siteKey(w, ins), "the connection map is written only by onAccept and the untrack callback", f, ins, ok, "in "+w.FnName(f), false)
		}
	}
	// every accepted connection goes through onAccept
	{
		onRead := w.MustFn("(*server).OnRead")
		for _, f := range append([]*ssa.Function{onRead}, onRead.AnonFuncs...) {
			for _, acc := range findIns(f, func(i ssa.Instruction) bool {
				cc := callCommon(i)
				return cc != nil && cc.IsInvoke() && cc.Method.Name() == "Accept"
			}) {
				// on (err == nil && conn != nil) -> onAccept
				accV := acc.(ssa.Value)
				errNil := cmpAtom(func(v ssa.Value) bool { e, ok := v.(*ssa.Extract); return ok && e.Tuple == accV && e.Index == 1 }, isNilConst, eqRel)
				connSet := cmpAtom(func(v ssa.Value) bool { e, ok := v.(*ssa.Extract); return ok && e.Tuple == accV && e.Index == 0 }, isNilConst, neqRel)
				var starts []Start
				for _, e := range edgesEstablishing(f, connSet) {
					pb := e.B.Preds[e.Pred]
					if r.guardedQuiet(f, pb.Instrs[len(pb.Instrs)-1], errNil) {
						starts = append(starts, e)
					}
				}
				r.mustPass("C13.R1:accepted-goes-through-onAccept:"+siteKey(w, acc), "every successfully accepted connection is handed to onAccept (callbacks + tracking)", f, acc, starts, func(i ssa.Instruction) bool { return isCall(i, onAccept) }, nil, nil, "onAccept() on every path from (err==nil, conn!=nil)")
			}
		}
	}

	// ---- R3 Shutdown results ------------------------------------------------------------------------
	{
		ranges := findIns(srvClose, func(i ssa.Instruction) bool { return isMapOp(i, "Range", "connections") })
		if len(ranges) != 1 {
			r.absentf(" C13: %d connections.Range calls in server.Close", len(ranges))
		}
		rng := ranges[0]
		scan := makeClosureFn(callCommon(rng).Args[1])
		if scan == nil {
			r.absentf(" C13: scan closure of server.Close")
		}
		r.precedes("C13.R3:detach-before-scan", "Shutdown removes the listener from the poller before it scans the connections (no new accepts)", srvClose, rng, func(i ssa.Instruction) bool { return ro.isControl(i, ro.evDetach) }, nil, "Control(PollDetach) dominates the scan")
		r.precedes("C13.R3:close-listener-before-scan", "Shutdown closes the listener before it scans", srvClose, rng, func(i ssa.Instruction) bool {
			cc := callCommon(i)
			return cc != nil && cc.IsInvoke() && cc.Method.Name() == "Close" && strings.HasSuffix(pathOf(cc.Value), ".ln")
		}, nil, "ln.Close() dominates the scan")
		// returns
		counter := func(v ssa.Value) bool {
			u, ok := v.(*ssa.UnOp)
			if !ok || u.Op != token.MUL {
				return false
			}
			a, ok := u.X.(*ssa.Alloc)
			if !ok {
				return false
			}
			for _, ref := range *a.Referrers() {
				if mc, ok := ref.(*ssa.MakeClosure); ok && mc.Fn == ssa.Value(scan) {
					return true
				}
			}
			return false
		}
		noneActive := cmpAtom(counter, isConstEq(0), eqRel)
		nRet := 0
		for _, ins := range allIns(srvClose) {
			ret, ok := ins.(*ssa.Return)
			if !ok {
				continue
			}
			if srvClose.Recover != nil && ret.Block() == srvClose.Recover {
				continue // the synthetic return after a recovered panic (present once the function has a defer)
			}
			nRet++
			v := seeThroughCell(ret.Results[0]) // a defer in the function spills the result into a cell
			switch {
			case isNilConst(v):
				// the counter test must follow the scan of this round
				ss := &Search{Fn: srvClose, CutEdge: cutOn(noneActive)}
				wit := ss.Find([]Start{After(rng)}, isIns(ret), false)
				r.Visited += ss.Visited
				r.obW(fmt.Sprintf("C13.R3:nil-only-when-none-active#%d", nRet), "Shutdown returns nil only when the scan of this round counted no active connection", srvClose, ret, wit, "guarded by activeConn==0 after the Range")
			default:
				isCtxErr := false
				if c, ok := v.(*ssa.Call); ok && c.Call.IsInvoke() && c.Call.Method.Name() == "Err" {
					isCtxErr = true
				}
				r.ob(fmt.Sprintf("C13.R3:other-return-is-ctx-err#%d", nRet), "the only other result of Shutdown is the context's error", srvClose, ret, isCtxErr, "returns "+shortVal(v), false)
				if isCtxErr {
					// reached only through the ctx.Done() case
					_, cut, n := recvMatchersV(srvClose, func(ch ssa.Value) bool {
						c, ok := ch.(*ssa.Call)
						return ok && c.Call.IsInvoke() && c.Call.Method.Name() == "Done"
					})
					ss := &Search{Fn: srvClose, CutEdge: cut}
					wit := ss.Find([]Start{Entry(srvClose)}, isIns(ret), false)
					r.Visited += ss.Visited
					if n == 0 {
						r.ob(fmt.Sprintf("C13.R3:ctx-err-only-on-done#%d", nRet), "ctx.Err() is returned only when ctx.Done() fired", srvClose, ret, false, "no select case on ctx.Done()", true)
					} else {
						r.obW(fmt.Sprintf("C13.R3:ctx-err-only-on-done#%d", nRet), "ctx.Err() is returned only when ctx.Done() fired", srvClose, ret, wit, "guarded by the ctx.Done() case")
					}
				}
			}
		}
		// the wait between two rounds always ends: its timed case is armed anew in every round (time.After, or a Timer that is
		// created / Reset on every way back to the select) - a timer that fired once never fires again, and from the second round
		// on only ctx.Done() would end the wait (for ever, with context.Background())
		for _, ins := range allIns(srvClose) {
			sel, ok := ins.(*ssa.Select)
			if !ok {
				continue
			}
			for k, st := range sel.States {
				if st.Dir != types.RecvOnly {
					continue
				}
				ch := st.Chan
				if c, ok := ch.(*ssa.Call); ok {
					if c.Call.IsInvoke() && c.Call.Method.Name() == "Done" {
						continue
					}
					if f := c.Call.StaticCallee(); f != nil && f.Pkg != nil && f.Pkg.Pkg.Path() == "time" && (f.Name() == "After" || f.Name() == "Tick") {
						r.ob(fmt.Sprintf("C13.R3:round-wait-is-rearmed#%d", k), "the timed case of Shutdown's wait is armed anew in every round", srvClose, sel, true, "time.After() evaluated per round", true)
						continue
					}
				}
				// a timer channel: every way from the select back to it passes NewTimer / Reset
				isArm := func(i ssa.Instruction) bool {
					f := calleeOf(i)
					return f != nil && f.Pkg != nil && f.Pkg.Pkg.Path() == "time" && (f.Name() == "NewTimer" || f.Name() == "Reset" || f.Name() == "After")
				}
				ss := &Search{Fn: srvClose, Stop: isArm, NoInline: true}
				wit := ss.Find([]Start{After(sel)}, isIns(sel), false)
				r.Visited += ss.Visited
				r.obW(fmt.Sprintf("C13.R3:round-wait-is-rearmed#%d", k), "the timed case of Shutdown's wait is armed anew in every round", srvClose, sel, wit, "NewTimer()/Reset() on every way back to the select")
			}
		}
		// the scan: Close only idle (or non-gracefulExit) connections, count the others
		isIdleCall := func(v ssa.Value) bool {
			c, ok := v.(*ssa.Call)
			return ok && c.Call.IsInvoke() && c.Call.Method.Name() == "isIdle"
		}
		idle := func(v ssa.Value) (bool, bool) {
			if isIdleCall(v) {
				return true, true
			}
			return false, false
		}
		notGraceful := func(v ssa.Value) (bool, bool) {
			e, ok := v.(*ssa.Extract)
			if !ok || e.Index != 1 {
				return false, false
			}
			if ta, ok := e.Tuple.(*ssa.TypeAssert); ok && ta.CommaOk {
				return false, true
			}
			return false, false
		}
		closes := findIns(scan, func(i ssa.Instruction) bool {
			cc := callCommon(i)
			return cc != nil && cc.IsInvoke() && cc.Method.Name() == "Close"
		})
		for i, c := range closes {
			r.guarded(fmt.Sprintf("C13.R3:close-only-idle#%d", i+1), "Shutdown closes a tracked connection only when it reports idle (busy ones keep running)", scan, c, anyAtom(idle, notGraceful), nil, "guarded by isIdle()==true")
		}
		if len(closes) == 0 {
			r.ob("C13.R3:close-only-idle", "Shutdown closes idle connections", scan, nil, false, "no Close in the scan", false)
		}
		// busy => counted
		busy := func(v ssa.Value) (bool, bool) {
			if isIdleCall(v) {
				return false, true
			}
			return false, false
		}
		r.mustPass("C13.R3:busy-is-counted", "a connection that is not idle is counted as active (so nil cannot be returned while it lives)", scan, nil, edgesEstablishing(scan, busy),
			func(i ssa.Instruction) bool {
				st, ok := i.(*ssa.Store)
				if !ok {
					return false
				}
				_, isFV := st.Addr.(*ssa.FreeVar)
				return isFV
			}, nil, nil, "activeConn++ on every path from the busy edge")
		// every tracked connection the sweep visits is closed or counted: nothing is skipped on some other ground (a connection
		// the poller marked closed but whose teardown waits for the user's Close - a handler-less server - is closed by this Close)
		r.mustPass("C13.R3:visited-is-closed-or-counted", "every connection the Shutdown sweep visits is either closed by it or counted as active: a tracked connection that is skipped (because it looks closed already, ...) is neither torn down nor waited for, and Shutdown returns nil with it still tracked", scan, nil, []Start{Entry(scan)},
			func(i ssa.Instruction) bool {
				if cc := callCommon(i); cc != nil && cc.IsInvoke() && cc.Method.Name() == "Close" {
					return true
				}
				st, ok := i.(*ssa.Store)
				if !ok {
					return false
				}
				_, isFV := st.Addr.(*ssa.FreeVar)
				return isFV
			}, nil, nil, "Close() or activeConn++ on every path of the Range callback")
		// the scan visits every entry: the callback always returns true
		ss := &Search{Fn: scan}
		all := true
		for _, ret := range ss.Reachable([]Start{Entry(scan)}, func(i ssa.Instruction) bool { _, ok := i.(*ssa.Return); return ok }) {
			if k, ok := constInt(ret.(*ssa.Return).Results[0]); !ok || k != 1 {
				all = false
			}
		}
		r.ob("C13.R3:scan-visits-all", "the scan never stops early (Range callback returns true)", scan, nil, all, "returns true", true)
		// the counter is reset each round
		r.ob("C13.R3:counter-per-round", "the active counter is fresh for every scan", srvClose, rng, counterFreshPerRound(srvClose, rng, scan), "activeConn := 0 inside the loop", true)
	}
	// isIdle
	{
		fn := w.MustFn("(*connection).isIdle")
		unlocked := callResultAtom(ro.isUnlock, true, ro.kProcessing)
		bufEmpty := func(field string) Atom {
			return func(v ssa.Value) (bool, bool) {
				c, ok := v.(*ssa.Call)
				if !ok {
					return false, false
				}
				m, ok := callOnField(c, "connection", field)
				if ok && m == "IsEmpty" {
					return true, true
				}
				return false, false
			}
		}
		lenZero := func(field string) Atom {
			return cmpAtom(func(v ssa.Value) bool {
				c, ok := v.(*ssa.Call)
				if !ok {
					return false
				}
				m, ok := callOnField(c, "connection", field)
				return ok && m == "Len"
			}, isConstEq(0), eqRel)
		}
		for _, req := range []struct {
			name string
			a    Atom
		}{{"handler-not-running", unlocked}, {"input-empty", anyAtom(bufEmpty("inputBuffer"), lenZero("inputBuffer"))}, {"output-empty", anyAtom(bufEmpty("outputBuffer"), lenZero("outputBuffer"))}} {
			// every "return true" is guarded by the fact. isIdle returns a phi of the && chain: true only from the last operand's edge
			ok := idleRequires(fn, req.a)
			r.ob("C13.R3:idle-means:"+req.name, "isIdle() reports true only when no handler holds the processing lock and both buffers are empty (a connection with unsent output or unread input is busy)", fn, nil, ok, "true result implies "+req.name, true)
		}
	}

	// ---- R4 Serve returns ----------------------------------------------------------------------------
	{
		quit := w.MustFn("(*eventLoop).quit")
		nonblock := false
		forEachIns(quit, func(i ssa.Instruction) {
			if s, ok := i.(*ssa.Select); ok && !s.Blocking {
				for _, st := range s.States {
					if strings.HasSuffix(pathOf(st.Chan), ".stop") {
						nonblock = true
					}
				}
			}
		})
		r.ob("C13.R4:quit-never-blocks", "quit() is a non-blocking send on the stop channel", quit, nil, nonblock && len(findIns(quit, isBlockingOp)) == 0, "select{case stop<-err: default:}", true)
		nel := w.MustFn("NewEventLoop")
		cap1 := false
		forEachIns(nel, func(i ssa.Instruction) {
			if mc, ok := i.(*ssa.MakeChan); ok {
				if k, okc := constInt(mc.Size); okc && k == 1 {
					cap1 = true
				}
			}
		})
		r.ob("C13.R4:stop-capacity-1", "the stop channel has capacity 1, so a quit before Serve waits is not lost", nel, nil, cap1, "make(chan error, 1)", false)
		shutdown := w.MustFn("(*eventLoop).Shutdown")
		sites := findIns(shutdown, func(i ssa.Instruction) bool { return isCall(i, srvClose) })
		for _, site := range sites {
			r.precedes("C13.R4:shutdown-quits-serve", "Shutdown signals Serve to return before it waits for connections", shutdown, site, func(i ssa.Instruction) bool { return isCall(i, quit) }, nil, "quit(nil) dominates svr.Close(ctx)")
		}
		if len(sites) == 0 {
			r.ob("C13.R4:shutdown-closes-server", "Shutdown closes the server", shutdown, nil, false, "no server.Close call", false)
		}
		// the server's onQuit is the event loop's quit; OnHup and the accept-error path call it
		onHup := w.MustFn("(*server).OnHup")
		callsOnQuit := func(i ssa.Instruction) bool { return isDynField(i, "server", "onQuit") }
		r.mustPass("C13.R4:listener-hup-quits", "a hang-up on the listener makes Serve return", onHup, nil, []Start{Entry(onHup)}, callsOnQuit, nil, nil, "onQuit on every path")
		serve := w.MustFn("(*eventLoop).Serve")
		bound := false
		forEachIns(serve, func(i ssa.Instruction) {
			if c, ok := i.(*ssa.Call); ok && c.Call.StaticCallee() == w.Fn("newServer") {
				if f := makeClosureFn(c.Call.Args[2]); f != nil && strings.HasPrefix(f.Name(), "quit") {
					bound = true
				}
			}
		})
		r.ob("C13.R4:onQuit-is-quit", "the server's onQuit is the event loop's quit", serve, nil, bound, "newServer(ln, opts, evl.quit)", false)
	}

	// ---- R6 the teardown chain and the control path the server relies on ---------------------------------
	// the untrack callback and the finalizer are nodes of the close-callback chain: the walk reaches them whatever the
	// user's callbacks return (C05.R5/R11)
	r.borrow([]string{"C05.R5:walk-is-complete", "C05.R11:runner-completes", "C05.R5:lifo-walk", "C05.R5:register-is-one-step"}, "C05.R", "C13.R6.teardown.", func() { c05(r) })
	{
		// every control request other than a repeated detach reaches the poller: the EMFILE back-off re-arms the listener
		// through FDOperator.Control and cannot notice a refusal
		fc := w.MustFn("(*FDOperator).Control")
		evDetach := w.ConstInt("PollDetach")
		isPollCtl := func(ins ssa.Instruction) bool {
			cc := callCommon(ins)
			return cc != nil && cc.IsInvoke() && cc.Method.Name() == "Control"
		}
		evIsDetach := func(v ssa.Value) (bool, bool) {
			b, ok := v.(*ssa.BinOp)
			if !ok || (b.Op != token.EQL && b.Op != token.NEQ) {
				return false, false
			}
			x, y := b.X, b.Y
			if _, isP := y.(*ssa.Parameter); isP {
				x, y = y, x
			}
			if _, isP := x.(*ssa.Parameter); isP && isConstEq(evDetach)(y) {
				return b.Op == token.EQL, true
			}
			return false, false
		}
		ss := &Search{Fn: fc, Stop: isPollCtl, CutEdge: cutOn(evIsDetach)}
		wit := ss.Find([]Start{Entry(fc)}, nil, true)
		r.Visited += ss.Visited
		r.obW("C13.R6:control-reaches-poller", "FDOperator.Control hands every request to the poller except on the event==PollDetach branch (the once-guard): re-arming a detached listener after EMFILE, whose result nobody looks at, is never refused silently", fc, nil, wit, "every path that is not on the PollDetach branch invokes poll.Control")
	}
	{
		// the server handle: set by Serve to the server it started, taken (set to nil) only by the Shutdown that then closes it
		srvClose := w.MustFn("(*server).Close")
		newSrv := w.MustFn("newServer")
		n := 0
		for _, fn := range w.Funcs {
			for _, i := range allIns(fn) {
				st, ok := i.(*ssa.Store)
				if !ok || !isStoreToField(i, "eventLoop", "svr") {
					continue
				}
				n++
				if c, isC := st.Val.(*ssa.Call); isC && c.Call.StaticCallee() == newSrv {
					r.ob("C13.R6:server-handle:"+siteKey(w, i), "the event loop's server handle is set to the server Serve has just created", fn, i, true, "evl.svr = newServer(...)", false)
					continue
				}
				okv := false
				detail := "stores " + stablePath(st.Val)
				if isNilConst(st.Val) {
					// taken by the function that closes what it took
					forEachIns(fn, func(j ssa.Instruction) {
						if !isCall(j, srvClose) {
							return
						}
						recv := callCommon(j).Args[0]
						if _, isLoad := loadOfField(recv, "eventLoop", "svr"); !isLoad {
							return
						}
						ld := recv.(ssa.Instruction)
						s1 := &Search{Fn: fn, Stop: isIns(ld)}
						if s1.Find([]Start{Entry(fn)}, isIns(i), false) == nil {
							okv = true
							detail = "the handle is loaded before it is cleared and that value is closed"
						}
						r.Visited += s1.Visited
					})
				}
				r.ob("C13.R6:server-handle:"+siteKey(w, i), "the server handle is cleared only by the Shutdown that took it (loaded it first) and closes it: once Serve has run, some Shutdown call finds the server - a handle cleared elsewhere makes Shutdown return nil with connections still open", fn, i, okv, detail, true)
			}
		}
		if n < 2 {
			r.absentf(" C13: only %d stores of eventLoop.svr", n)
		}
		// ... and only once that Close has succeeded: a Shutdown that timed out must leave the handle in place, or the next
		// Shutdown finds no server and returns nil at once with the busy connections still tracked
		closedOK := cmpAtom(func(v ssa.Value) bool {
			c, ok := v.(*ssa.Call)
			return ok && c.Call.StaticCallee() == srvClose
		}, isNilConst, eqRel)
		for _, fn := range w.Funcs {
			for _, i := range allIns(fn) {
				st, ok := i.(*ssa.Store)
				if !ok || !isStoreToField(i, "eventLoop", "svr") || !isNilConst(st.Val) {
					continue
				}
				r.guarded("C13.R6:handle-cleared-only-after-close-succeeded", "Shutdown gives up the server handle only after server.Close returned nil: after a Shutdown that ran into its deadline the server is still there (listener closed, busy connections tracked), and a second Shutdown must find it and wait for those connections instead of returning nil at once", fn, i, closedOK, nil, "guarded by svr.Close(ctx) == nil")
			}
		}
	}

	// ---- R5 EMFILE back-off re-arms --------------------------------------------------------------------
	{
		onRead := w.MustFn("(*server).OnRead")
		var retry *ssa.Function
		forEachIns(onRead, func(i ssa.Instruction) {
			if g, ok := i.(*ssa.Go); ok {
				if f := makeClosureFn(g.Call.Value); f != nil {
					retry = f
				}
			}
		})
		r.ob("C13.R5:retry-goroutine", "on EMFILE/ENFILE the listener is detached and a retry goroutine takes over", onRead, nil, retry != nil, "go func(){...}", false)
		if retry != nil {
			r.mustPass("C13.R5:retry-rearms", "the retry goroutine's only way out re-registers the listener for reading", retry, nil, []Start{Entry(retry)}, func(i ssa.Instruction) bool { return ro.isControl(i, ro.evReadable) }, nil, nil, "Control(PollReadable) before every return")
			for _, g := range findIns(onRead, func(i ssa.Instruction) bool { _, ok := i.(*ssa.Go); return ok }) {
				r.precedes("C13.R5:detach-before-retry", "the listener is detached (level-triggered poller) before the retry goroutine starts", onRead, g, func(i ssa.Instruction) bool { return ro.isControl(i, ro.evDetach) }, nil, "Control(PollDetach) dominates the go statement")
				isOOF := callResultAtom(w.MustFn("isOutOfFdErr"), true)
				r.guarded("C13.R5:retry-only-on-emfile", "the back-off is used only for out-of-descriptor errors", onRead, g, isOOF, nil, "guarded by isOutOfFdErr(err)")
			}
			// the back-off table is indexed within bounds for ever (the goroutine may retry for as long as descriptors are exhausted)
			n := 0
			for _, ins := range allIns(retry) {
				ia, ok := ins.(*ssa.IndexAddr)
				if !ok {
					continue
				}
				if _, isSlice := ia.X.Type().Underlying().(*types.Slice); !isSlice {
					continue
				}
				if _, isConst := ia.Index.(*ssa.Const); isConst {
					continue
				}
				n++
				okB := indexBounded(ia.Index, ia.X, map[ssa.Value]bool{}, 0)
				r.ob(fmt.Sprintf("C13.R5:backoff-index-in-bounds#%d", n), "the retry goroutine indexes its back-off table with a value that is provably below the table's length on every iteration (initial constant, or an increment taken only under idx+1 < len(table)): a long exhaustion cannot crash the process", retry, ins, okB, "inductive bound on the index", true)
			}
			// accepted connections in the retry loop are handed to onAccept (checked above) and the loop continues
		}
	}
}

// recvMatchersV is recvMatchers with a predicate on the channel value.
func recvMatchersV(fn *ssa.Function, isChan func(ssa.Value) bool) (stop func(ssa.Instruction) bool, cut func(*ssa.If, ssa.Value, bool) bool, n int) {
	type selCase struct {
		sel *ssa.Select
		idx int64
	}
	var cases []selCase
	forEachIns(fn, func(ins ssa.Instruction) {
		if x, ok := ins.(*ssa.Select); ok {
			for i, st := range x.States {
				if isChan(st.Chan) {
					cases = append(cases, selCase{x, int64(i)})
					n++
				}
			}
		}
	})
	stop = func(ins ssa.Instruction) bool {
		u, ok := ins.(*ssa.UnOp)
		return ok && u.Op == token.ARROW && isChan(u.X)
	}
	atom := func(v ssa.Value) (bool, bool) {
		x, k, eq, ok := cmpConst(v)
		if !ok {
			return false, false
		}
		ex, ok := x.(*ssa.Extract)
		if !ok || ex.Index != 0 {
			return false, false
		}
		for _, c := range cases {
			if ex.Tuple == ssa.Value(c.sel) && c.idx == k {
				return eq, true
			}
		}
		return false, false
	}
	cut = cutOn(atom)
	return
}

// sameCapturedValue: inside closure `in`, value a is a free variable bound to outer value b.
func sameCapturedValue(a, b ssa.Value, in *ssa.Function) bool {
	strip := func(v ssa.Value) ssa.Value {
		for {
			switch x := v.(type) {
			case *ssa.MakeInterface:
				v = x.X
				continue
			case *ssa.UnOp:
				if x.Op == token.MUL {
					v = x.X
					continue
				}
			}
			return v
		}
	}
	a, b = strip(a), strip(b)
	fv, ok := a.(*ssa.FreeVar)
	if !ok {
		return a == b
	}
	// find the MakeClosure binding
	idx := -1
	for i, f := range in.FreeVars {
		if f == fv {
			idx = i
		}
	}
	if idx < 0 || in.Parent() == nil {
		return false
	}
	found := false
	forEachIns(in.Parent(), func(i ssa.Instruction) {
		if mc, ok := i.(*ssa.MakeClosure); ok && mc.Fn == ssa.Value(in) && idx < len(mc.Bindings) {
			if strip(mc.Bindings[idx]) == b {
				found = true
			}
		}
	})
	return found
}

func counterFreshPerRound(fn *ssa.Function, rng ssa.Instruction, scan *ssa.Function) bool {
	// the cell captured by the scan closure is allocated (or zeroed) in the same block as the Range call or dominated loop body
	var cell *ssa.Alloc
	forEachIns(fn, func(i ssa.Instruction) {
		if mc, ok := i.(*ssa.MakeClosure); ok && mc.Fn == ssa.Value(scan) && len(mc.Bindings) > 0 {
			if a, ok := mc.Bindings[0].(*ssa.Alloc); ok {
				cell = a
			}
		}
	})
	if cell == nil {
		return false
	}
	// every path into the Range call passes a store of 0 to the cell (or its allocation) since the previous Range
	ss := &Search{Fn: fn, Stop: func(i ssa.Instruction) bool {
		if i == ssa.Instruction(cell) {
			return true
		}
		st, ok := i.(*ssa.Store)
		if ok && st.Addr == ssa.Value(cell) {
			k, okc := constInt(st.Val)
			return okc && k == 0
		}
		return false
	}}
	return ss.Find([]Start{Entry(fn), After(rng)}, isIns(rng), false) == nil
}

// idleRequires: every path on which fn returns true crosses an edge establishing the fact.
func idleRequires(fn *ssa.Function, a Atom) bool {
	for _, ins := range allIns(fn) {
		ret, ok := ins.(*ssa.Return)
		if !ok {
			continue
		}
		// search with phi-aware states: reach the return with result == true
		ss := &Search{Fn: fn, CutEdge: cutOn(a)}
		// a return of a phi: resolve per predecessor by treating constant-false edges as harmless
		v := ret.Results[0]
		if phi, ok := v.(*ssa.Phi); ok && phi.Block() == ret.Block() {
			for pi, e := range phi.Edges {
				if k, okc := constInt(e); okc && k == 0 {
					continue // returns false on this edge
				}
				pb := ret.Block().Preds[pi]
				last := pb.Instrs[len(pb.Instrs)-1]
				// the operand edge: either the fact is established on the way to pb's end, or the operand itself is the fact (returned as value)
				if pol, isFact := a(stripToBase(e)); isFact && pol {
					continue
				}
				if ss.Find([]Start{Entry(fn)}, isIns(last), false) != nil {
					return false
				}
			}
			continue
		}
		if k, okc := constInt(v); okc && k == 0 {
			continue
		}
		if pol, isFact := a(stripToBase(v)); isFact && pol {
			continue
		}
		if ss.Find([]Start{Entry(fn)}, isIns(ret), false) != nil {
			return false
		}
	}
	return true
}

func stripToBase(v ssa.Value) ssa.Value {
	b, _ := stripNot(v, true)
	return b
}

// indexBounded: v < len(slice) by induction over phis: constants 0, phis of bounded values, and x+c where the
// increment is only taken on an edge established by  x+c' < len(slice)  with c' >= c.
func indexBounded(v ssa.Value, slice ssa.Value, seen map[ssa.Value]bool, depth int) bool {
	if depth > 10 {
		return false
	}
	if seen[v] {
		return true // inductive hypothesis
	}
	seen[v] = true
	switch x := v.(type) {
	case *ssa.Const:
		k, ok := constInt(x)
		if !ok || k < 0 {
			return false
		}
		// table length if it is a slice of a fresh array
		if sl, ok := slice.(*ssa.Slice); ok {
			if a, ok := sl.X.(*ssa.Alloc); ok {
				if arr, ok := a.Type().Underlying().(*types.Pointer).Elem().Underlying().(*types.Array); ok {
					return k < arr.Len()
				}
			}
		}
		return k == 0
	case *ssa.Phi:
		for _, e := range x.Edges {
			if !indexBounded(e, slice, seen, depth+1) {
				return false
			}
		}
		return true
	case *ssa.BinOp:
		if x.Op != token.ADD {
			return false
		}
		c, ok := constInt(x.Y)
		if !ok || c < 0 {
			return false
		}
		if !indexBounded(x.X, slice, seen, depth+1) {
			return false
		}
		for _, g := range guardChain(x.Block()) {
			b, ok := g.Cond.(*ssa.BinOp)
			if !ok || b.Op != token.LSS || !g.Branch {
				continue
			}
			inc, ok := b.X.(*ssa.BinOp)
			if !ok || inc.Op != token.ADD || inc.X != x.X {
				continue
			}
			c2, ok := constInt(inc.Y)
			if !ok || c2 < c {
				continue
			}
			if lc, ok := b.Y.(*ssa.Call); ok {
				if bi, isB := lc.Call.Value.(*ssa.Builtin); isB && bi.Name() == "len" && lc.Call.Args[0] == slice {
					return true
				}
			}
		}
		return false
	}
	return false
}
