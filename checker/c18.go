package main

import (
	"fmt"
	"go/token"
	"go/types"
	"strings"

	"golang.org/x/tools/go/ssa"
)

func init() {
	register("C18",
		"Decides the structural premises of the lazily initialised poller pool: Pick hands out balance.Pick() only after observing status==initialized or after its own Run(), and only the winner of the uninitialized->initializing CAS runs Run(), which is followed by the transition to initialized; losers spin back to the status test; in Run every poller that was opened is stored in the new slice and its loop started (go Wait), an open error aborts and tears everything down, the shrink branch closes the surplus pollers, and the balancer receives the new slice on the success path after it was installed; SetNumLoops publishes the size before it resets the status; round-robin indices come from an atomic counter modulo the pool size. The balancer SetLoadBalance creates gets the current pool; Configure passes the zero mode on. Not decided: evenness of the distribution as a value property, liveness of the loops, 'exactly that many loops' at run time.",
		[]string{"sync/atomic is linearizable", "reconfiguration is not concurrent with Pick (documented contract)"},
		func(r *Run) {
			cfgs := []string{"linux"}
			if r.Tier == "thorough" {
				cfgs = []string{"linux", "darwin"}
			}
			for _, c := range cfgs {
				if r.useOpt(c) == nil {
					continue
				}
				c18(r)
			}
		})
}

func c18(r *Run) {
	w := r.W
	pick := w.MustFn("(*manager).Pick")
	run := w.MustFn("(*manager).Run")
	setN := w.MustFn("(*manager).SetNumLoops")
	const fStatus, fNum = "manager.status", "manager.numLoops"
	uninit, initing, inited := w.ConstInt("managerUninitialized"), w.ConstInt("managerInitializing"), w.ConstInt("managerInitialized")

	isBalPick := func(i ssa.Instruction) bool {
		cc := callCommon(i)
		return cc != nil && cc.IsInvoke() && cc.Method.Name() == "Pick" && strings.HasSuffix(pathOf(cc.Value), ".balance")
	}
	casOf := func(from, to int64) func(ssa.Value) bool {
		return func(v ssa.Value) bool {
			c, ok := v.(*ssa.Call)
			if !ok {
				return false
			}
			a := asAtomic(c)
			if a == nil || a.Op != "CompareAndSwap" || structFieldOfAddr(a.Addr) != fStatus {
				return false
			}
			return isConstEq(from)(a.Args[0]) && isConstEq(to)(a.Args[1])
		}
	}
	wonInit := func(v ssa.Value) (bool, bool) {
		if casOf(uninit, initing)(v) {
			return true, true
		}
		return false, false
	}
	isInited := cmpAtom(atomicValOn("Load", fStatus), isConstEq(inited), eqRel)
	isRun := func(i ssa.Instruction) bool { return isCall(i, run) }

	// ---- R2 -----------------------------------------------------------------------------------------
	picks := findIns(pick, isBalPick)
	if len(picks) == 0 {
		r.absentf(" C18: Pick never calls balance.Pick()")
	}
	for i, site := range picks {
		ss := &Search{Fn: pick, Stop: isRun, CutEdge: cutOn(isInited)}
		wit := ss.Find([]Start{Entry(pick)}, isIns(site), false)
		r.Visited += ss.Visited
		r.obW(fmt.Sprintf("C18.R2:pick-only-when-running#%d", i+1), "Pick hands out a poller only after observing status==initialized or after running Run() itself (never from a pool that is still being built by someone else)", pick, site, wit, "guarded by Load(status)==initialized or preceded by Run()")
	}
	for _, site := range findIns(pick, isRun) {
		r.guarded("C18.R2:single-initializer", "only the winner of the uninitialized->initializing CAS builds the pool", pick, site, wonInit, nil, "guarded by CAS(status,uninit,initializing)")
		r.mustPass("C18.R2:publish-initialized", "after building the pool the initializer publishes status=initialized on every path (or everyone else spins for ever)", pick, site, []Start{After(site)}, func(i ssa.Instruction) bool {
			c, ok := i.(*ssa.Call)
			if !ok {
				return false
			}
			if casOf(initing, inited)(c) {
				return true
			}
			a := asAtomic(c)
			return a != nil && a.Op == "Store" && structFieldOfAddr(a.Addr) == fStatus && isConstEq(inited)(a.Args[0])
		}, nil, nil, "CAS(initializing,initialized) on every path")
	}
	{
		// losers go back to the status test
		lost := func(v ssa.Value) (bool, bool) {
			if casOf(uninit, initing)(v) {
				return false, true
			}
			return false, false
		}
		r.neverReach("C18.R2:losers-wait", "a caller that lost the initialisation CAS neither runs Run() nor picks before it re-reads the status", pick, nil, edgesEstablishing(pick, lost),
			anyOf(isRun, isBalPick), func(i ssa.Instruction) bool { return atomicOn(i, "Load", fStatus) }, nil, nil, "only the status re-read is reachable")
		r.mustPass("C18.R2:status-read-first", "Pick reads the status on every path", pick, nil, []Start{Entry(pick)}, func(i ssa.Instruction) bool { return atomicOn(i, "Load", fStatus) }, nil, nil, "Load(status) on every path")
	}
	// SetNumLoops: size before status reset
	for _, st := range findIns(setN, func(i ssa.Instruction) bool { return atomicOn(i, "Store", fStatus) }) {
		a := asAtomic(st)
		r.ob("C18.R2:resize-resets-status", "changing the size marks the pool uninitialized so that the next Pick rebuilds it", setN, st, isConstEq(uninit)(a.Args[0]), "Store(status, uninitialized)", false)
		r.precedes("C18.R2:size-before-status", "the new size is published before the status is reset (a Pick that sees 'uninitialized' builds the pool with the new size)", setN, st, func(i ssa.Instruction) bool { return atomicOn(i, "Store", fNum) }, nil, "Store(numLoops) dominates Store(status)")
	}
	if len(findIns(setN, func(i ssa.Instruction) bool { return atomicOn(i, "Store", fStatus) })) == 0 {
		r.ob("C18.R2:resize-resets-status", "changing the size marks the pool uninitialized", setN, nil, false, "no Store(status)", false)
	}

	// every valid SetNumLoops takes effect: the size is stored and the status reset on every path with numLoops >= 1
	{
		valid := func(v ssa.Value) (bool, bool) {
			b, ok := v.(*ssa.BinOp)
			if !ok {
				return false, false
			}
			if p, isP := b.X.(*ssa.Parameter); isP && p.Parent() == setN && isConstEq(1)(b.Y) {
				switch b.Op {
				case token.LSS:
					return false, true
				case token.GEQ:
					return true, true
				}
			}
			return false, false
		}
		starts := edgesEstablishing(setN, valid)
		r.mustPass("C18.R2:resize-always-stored", "every valid SetNumLoops stores the requested size (it is compared with nothing but the lower bound): a later Pick brings the pool to exactly the last configured size", setN, nil, starts, func(i ssa.Instruction) bool { return atomicOn(i, "Store", fNum) }, nil, nil, "Store(numLoops) on every path with numLoops >= 1")
		r.mustPass("C18.R2:resize-always-resets", "every valid SetNumLoops marks the pool uninitialized", setN, nil, starts, func(i ssa.Instruction) bool { return atomicOn(i, "Store", fStatus) }, nil, nil, "Store(status) on every path with numLoops >= 1")
	}
	// the round-robin counter does not wrap in practice: at least 64 bits wide on 64-bit targets
	{
		rr := w.NamedType("roundRobinLB").Underlying().(*types.Struct)
		okW, tname := false, "?"
		for i := 0; i < rr.NumFields(); i++ {
			if rr.Field(i).Name() == "accepted" {
				tname = rr.Field(i).Type().String()
				if b, ok := rr.Field(i).Type().Underlying().(*types.Basic); ok {
					switch b.Kind() {
					case types.Uintptr, types.Uint64, types.Int64, types.Uint, types.Int:
						okW = true
					}
				}
			}
		}
		r.ob("C18.R4:counter-width", "the round-robin counter is a machine-word (64-bit) integer: a 32-bit counter wraps after 2^32 picks and breaks the even rotation for pool sizes that are not a power of two", nil, nil, okW, "accepted "+tname, false)
	}

	// ---- R3 Run ---------------------------------------------------------------------------------------
	openPoll := w.MustFn("openPoll")
	opens := findIns(run, func(i ssa.Instruction) bool { return isCall(i, openPoll) })
	if len(opens) == 0 {
		r.absentf(" C18: Run never opens a poller")
	}
	for i, op := range opens {
		opened := cmpAtom(errOfCall(op.(ssa.Value), 1), isNilConst, eqRel)
		failed := cmpAtom(errOfCall(op.(ssa.Value), 1), isNilConst, neqRel)
		okEdges := edgesEstablishingCell(run, opened, op)
		badEdges := edgesEstablishingCell(run, failed, op)
		isGoWait := func(x ssa.Instruction) bool {
			g, ok := x.(*ssa.Go)
			return ok && g.Call.IsInvoke() && g.Call.Method.Name() == "Wait"
		}
		isStorePoll := func(x ssa.Instruction) bool {
			st, ok := x.(*ssa.Store)
			if !ok {
				return false
			}
			_, isIdx := st.Addr.(*ssa.IndexAddr)
			return isIdx && namedTypeName(st.Val.Type()) == "Poll"
		}
		r.mustPass(fmt.Sprintf("C18.R3:opened-is-started#%d", i+1), "every poller that was opened has its loop started (go poll.Wait())", run, op, okEdges, isGoWait, nil, nil, "go Wait() on every path from the success edge")
		r.mustPass(fmt.Sprintf("C18.R3:opened-is-stored#%d", i+1), "every poller that was opened is stored in the new pool slice", run, op, okEdges, isStorePoll, nil, nil, "polls[idx] = poll on every path from the success edge")
		// failure: returns the error (the deferred Close tears down)
		ss := &Search{Fn: run}
		okRet := len(badEdges) > 0
		for _, ret := range ss.Reachable(badEdges, func(i ssa.Instruction) bool { _, ok := i.(*ssa.Return); return ok }) {
			if lastResultAll(ret.(*ssa.Return), isNilConst) {
				okRet = false
			}
		}
		r.Visited += ss.Visited
		r.ob(fmt.Sprintf("C18.R3:open-error-reported#%d", i+1), "a failed open aborts Run with the error", run, op, okRet, "returns the error", true)
		r.neverReach(fmt.Sprintf("C18.R3:open-error-no-rebalance#%d", i+1), "after a failed open the half-built pool is not installed", run, op, badEdges, func(x ssa.Instruction) bool {
			return isStoreToField(x, "manager", "polls") || isRebalance(x)
		}, nil, nil, nil, "no m.polls= / Rebalance reachable")
	}
	// deferred teardown on error
	{
		has := false
		forEachIns(run, func(i ssa.Instruction) {
			if d, ok := i.(*ssa.Defer); ok {
				if f := makeClosureFn(d.Call.Value); f != nil && callsFn(f, w.MustFn("(*manager).Close")) {
					has = true
				}
			}
		})
		r.ob("C18.R3:error-teardown", "Run tears the pool down when it fails (deferred Close on error)", run, nil, has, "defer func(){ if err != nil { m.Close() } }", false)
	}
	// success path: polls installed, then Rebalance with it
	for _, rb := range findIns(run, isRebalance) {
		r.precedes("C18.R3:install-before-rebalance", "the balancer is given the pool after it was installed in the manager", run, rb, func(x ssa.Instruction) bool { return isStoreToField(x, "manager", "polls") }, nil, "m.polls = polls dominates Rebalance")
		arg := callCommon(rb).Args[0]
		_, okArg := loadOfField(arg, "manager", "polls")
		r.ob("C18.R3:rebalance-gets-new-pool", "the balancer receives the manager's current pool", run, rb, okArg, "Rebalance(m.polls)", true)
	}
	for _, st := range findIns(run, func(x ssa.Instruction) bool { return isStoreToField(x, "manager", "polls") }) {
		r.mustPass("C18.R3:installed-is-rebalanced", "whenever a new pool is installed the balancer is told", run, st, []Start{After(st)}, isRebalance, nil, nil, "Rebalance on every path after m.polls = polls")
	}
	if len(findIns(run, isRebalance)) == 0 {
		r.ob("C18.R3:rebalance-gets-new-pool", "Run rebalances", run, nil, false, "no Rebalance call", false)
	}
	// the shrink branch closes the pollers of the OLD pool from the new size upwards
	{
		closes := findIns(run, func(i ssa.Instruction) bool {
			cc := callCommon(i)
			return cc != nil && cc.IsInvoke() && cc.Method.Name() == "Close" && namedTypeName(cc.Value.Type()) == "Poll"
		})
		if len(closes) == 0 {
			r.ob("C18.R3:shrink-closes-surplus", "Run closes the surplus pollers when the pool shrinks", run, nil, false, "no poll.Close() in Run", false)
		}
		nOld := 0
		defer func() {
			if len(closes) > 0 && nOld == 0 {
				r.ob("C18.R3:shrink-closes-surplus", "Run closes elements of the installed pool m.polls when the pool shrinks", run, nil, false, "no Close() of an element of m.polls in Run", false)
			}
		}()
		for i, c := range closes {
			// the closed element comes from m.polls and the loop is bounded by len(m.polls)
			// the pool the closed element is taken from: m.polls itself or an open-ended tail m.polls[k:] of it
			isOldPool := func(v ssa.Value) bool {
				if _, ok := loadOfField(v, "manager", "polls"); ok {
					return true
				}
				if sl, ok := v.(*ssa.Slice); ok && sl.High == nil && sl.Max == nil {
					_, ok := loadOfField(sl.X, "manager", "polls")
					return ok
				}
				return false
			}
			var pool ssa.Value
			if u, ok := callCommon(c).Value.(*ssa.UnOp); ok {
				if ia, ok := u.X.(*ssa.IndexAddr); ok && isOldPool(ia.X) {
					pool = ia.X
				}
			}
			fromOld := pool != nil
			boundOld := false
			for _, g := range guardChain(c.Block()) {
				b, ok := g.Cond.(*ssa.BinOp)
				if !ok || b.Op != token.LSS || !g.Branch {
					continue
				}
				if lc, ok := b.Y.(*ssa.Call); ok {
					if bi, isB := lc.Call.Value.(*ssa.Builtin); isB && bi.Name() == "len" {
						// bounded by the length of the old pool (index loop) or of the very tail that is walked (range loop)
						// ... and what is bounded is the loop variable (a phi, or the phi+1 of a range loop), not the test that
						// selects the shrink branch
						isLoopVar := false
						if _, isPhi := b.X.(*ssa.Phi); isPhi {
							isLoopVar = true
						} else if add, ok := b.X.(*ssa.BinOp); ok && add.Op == token.ADD {
							_, isLoopVar = add.X.(*ssa.Phi)
						}
						if a := lc.Call.Args[0]; isLoopVar && (a == pool || isOldPool(a)) {
							if _, isSl := a.(*ssa.Slice); !isSl || a == pool {
								boundOld = true
							}
						}
					}
				}
			}
			if !fromOld {
				// a close of pollers that are not part of the installed pool (clean-up of a failed growth): C15.R5
				continue
			}
			nOld++
			r.ob(fmt.Sprintf("C18.R3:shrink-closes-surplus#%d", i+1), "the surplus pollers that are closed are the elements of the current pool m.polls from the new size up to len(m.polls) (a loop bounded by the new, shorter slice closes nothing)", run, c, fromOld && boundOld, fmt.Sprintf("element of m.polls=%v, loop bound len(m.polls)=%v", fromOld, boundOld), true)
		}
	}
	// a balancer created for a new mode starts with the pool as it is: Run returns early when the size did not change, so
	// nobody else would hand it the pollers
	{
		slb := w.MustFn("(*manager).SetLoadBalance")
		newLB := w.MustFn("newLoadbalance")
		n := 0
		for _, site := range findIns(slb, func(i ssa.Instruction) bool { return isCall(i, newLB) }) {
			n++
			_, okArg := loadOfField(callCommon(site).Args[1], "manager", "polls")
			if !okArg {
				// ... or it is told right afterwards
				ss := &Search{Fn: slb, Stop: isRebalance}
				okArg = ss.Find([]Start{After(site)}, nil, true) == nil
				r.Visited += ss.Visited
			}
			r.ob("C18.R3:new-balancer-gets-current-pool", "the balancer SetLoadBalance creates for a new mode is given the manager's current pollers: a mode change on a running pool of unchanged size is not followed by any Rebalance (Run returns early), and an empty balancer panics in Pick", slb, site, okArg, "newLoadbalance(lb, m.polls)", true)
		}
		if n == 0 {
			r.absentf(" C18: SetLoadBalance creates no balancer")
		}
		// Configure passes every valid mode on, the zero value (RoundRobin) included
		cfg := w.MustFn("Configure")
		for _, site := range findIns(cfg, func(i ssa.Instruction) bool { return isCall(i, slb) }) {
			admitsZero := true
			detail := "unconditional"
			for _, g := range guardChain(site.Block()) {
				b, ok := g.Cond.(*ssa.BinOp)
				if !ok {
					continue
				}
				if _, _, _, isF := fieldOfLoad(b.X, "Config", "LoadBalance"); !isF {
					continue
				}
				k, okc := constInt(b.Y)
				if !okc {
					continue
				}
				var truth bool
				switch b.Op {
				case token.GEQ:
					truth = 0 >= k
				case token.GTR:
					truth = 0 > k
				case token.LEQ:
					truth = 0 <= k
				case token.LSS:
					truth = 0 < k
				case token.EQL:
					truth = 0 == k
				case token.NEQ:
					truth = 0 != k
				default:
					continue
				}
				detail = fmt.Sprintf("guard LoadBalance %s %d on the %v branch", b.Op, k, g.Branch)
				if truth != g.Branch {
					admitsZero = false
				}
			}
			r.ob("C18.R3:configure-passes-zero-mode", "Configure hands the configured balancing mode to the manager also when it is the zero value (RoundRobin): switching a Random pool back to RoundRobin through Configure takes effect", cfg, site, admitsZero, detail, true)
		}
	}
	// size read atomically and compared with the current pool
	r.mustPass("C18.R3:size-read", "Run reads the configured size atomically", run, nil, []Start{Entry(run)}, func(i ssa.Instruction) bool { return atomicOn(i, "Load", fNum) }, nil, nil, "Load(numLoops) on every path")

	// every new connection advances the round-robin counter once: the callers of Pick are one per connection (its operator),
	// one per listener, and the warm-up; a second per-connection caller (the dialer's temporary slot) makes dialed connections
	// take every other poller only
	{
		pick := w.MustFn("(*manager).Pick")
		allowed := map[string]string{
			"(*connection).initFDOperator": "the connection's own slot",
			"(*server).Run":                "the listener's slot (once per listener)",
			"Initialize":                   "warm-up: brings the pool up",
			"init":                         "package initialisation",
		}
		for _, site := range callSitesOf(w, pick) {
			fn := site.Parent()
			name := w.FnName(fn)
			why, ok := allowed[name]
			r.ob("C18.R4:one-pick-per-connection:"+name, "Pick is called once per new connection (plus once per listener and at warm-up): a dialed connection that takes a second pick for a temporary slot advances the round-robin counter twice, and with an even number of pollers every dialed connection lands on the same poller", fn, site, ok, why, false)
		}
	}
	// ---- R4 round robin ------------------------------------------------------------------------------
	{
		rr := w.MustFn("(*roundRobinLB).Pick")
		ok := false
		forEachIns(rr, func(i ssa.Instruction) {
			ia, isIA := i.(*ssa.IndexAddr)
			if !isIA || !strings.HasSuffix(pathOf(ia.X), ".polls") {
				return
			}
			// index = int(Add(&accepted,1)) % pollSize
			b, isB := ia.Index.(*ssa.BinOp)
			if !isB || b.Op != token.REM {
				return
			}
			x := stripConv(b.X)
			if c, isC := x.(*ssa.Call); isC && atomicOn(c, "Add", "roundRobinLB.accepted") {
				if _, isSize := loadOfField(b.Y, "roundRobinLB", "pollSize"); isSize {
					ok = true
				}
			}
		})
		r.ob("C18.R4:round-robin-index", "round-robin picks polls[atomic.Add(&accepted,1) % pollSize]: consecutive picks walk the pool", rr, nil, ok, "index = Add(&accepted,1) % pollSize", true)
		// ... and the counter only ever advances there: Pick runs concurrently, a reset (CAS/Store/Swap to wrap the counter) that
		// races with another Pick's Add repeats or skips positions and the per-poller counts drift apart
		{
			var bad ssa.Instruction
			nAdd := 0
			forEachIns(rr, func(i ssa.Instruction) {
				if a := asAtomic(i); a != nil && structFieldOfAddr(a.Addr) == "roundRobinLB.accepted" {
					if a.Op == "Add" {
						nAdd++
					} else if a.Op != "Load" {
						bad = i
					}
				}
				if isStoreToField(i, "roundRobinLB", "accepted") {
					bad = i
				}
			})
			r.ob("C18.R4:counter-only-advances", "the round-robin counter is touched in Pick by exactly one atomic Add and nothing else: concurrent Picks each take a distinct consecutive value", rr, bad, bad == nil && nAdd == 1, fmt.Sprintf("%d Add, no other write", nAdd), true)
		}
		for _, name := range []string{"(*roundRobinLB).Rebalance", "(*randomLB).Rebalance"} {
			f := w.MustFn(name)
			sets := 0
			sizeOK := false
			forEachIns(f, func(i ssa.Instruction) {
				if st, isSt := i.(*ssa.Store); isSt {
					_, fld, _, okf := fieldOf(st.Addr)
					if okf && fld == "polls" {
						sets++
					}
					if okf && fld == "pollSize" {
						if c, isC := st.Val.(*ssa.Call); isC {
							if bi, isB := c.Call.Value.(*ssa.Builtin); isB && bi.Name() == "len" {
								if _, isP := c.Call.Args[0].(*ssa.Parameter); isP {
									sizeOK = true
								}
							}
						}
					}
				}
			})
			r.ob("C18.R4:rebalance-consistent:"+f.Name()+":"+strings.Split(name, ")")[0][2:], "Rebalance replaces the slice and its cached length together", f, nil, sets == 1 && sizeOK, "polls, pollSize = polls, len(polls)", true)
		}
	}
}

func isRebalance(i ssa.Instruction) bool {
	cc := callCommon(i)
	return cc != nil && cc.IsInvoke() && cc.Method.Name() == "Rebalance"
}

// edgesEstablishingCell is edgesEstablishing that also understands conditions on a named result
// cell into which the call's error was stored just before (err = ...; if err != nil).
func edgesEstablishingCell(fn *ssa.Function, a Atom, call ssa.Instruction) []Start {
	out := edgesEstablishing(fn, a)
	wrap := func(v ssa.Value) (bool, bool) {
		b, ok := v.(*ssa.BinOp)
		if !ok || (b.Op != token.EQL && b.Op != token.NEQ) {
			return false, false
		}
		x := seeThroughCell(b.X)
		if x == b.X {
			return false, false
		}
		nb := &ssa.BinOp{Op: b.Op, X: x, Y: b.Y}
		return a(nb)
	}
	out = append(out, edgesEstablishing(fn, wrap)...)
	_ = call
	return out
}
