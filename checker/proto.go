package main

import (
	"fmt"
	"go/token"
	"sort"

	"golang.org/x/tools/go/ssa"
)

// protoEffects labels instructions with the protocol events of the connection state machine:
//
//	lock:<k> unlock:<k> stop:<k> force:<k>      key-lock operations with constant key
//	closeBy  readClosing                         CAS on / load of keychain[closing]
//	closecb                                      call of the close-callback runner
//	usercb:<T>                                   dynamic call of a user callback of public type T
//	tok.do tok.done tok.inuse tok.unused         slot token operations
//	ctl:<ev>                                     FDOperator.Control with constant event
//	op.free                                      FDOperator.Free
type protoFx struct {
	*Effects
	r *Roles
}

var protoCache = map[*World]*protoFx{}

func protoEffects(w *World) *protoFx {
	if p, ok := protoCache[w]; ok {
		return p
	}
	r := rolesOf(w)
	p := &protoFx{r: r}
	p.Effects = &Effects{W: w}
	p.Direct = func(ins ssa.Instruction) []string {
		var out []string
		if k := userCallbackKind(ins); k != "" {
			out = append(out, "usercb:"+k, "usercb")
		}
		cc := callCommon(ins)
		if cc == nil {
			return out
		}
		f := cc.StaticCallee()
		if f == nil {
			return out
		}
		keyed := func(name string) {
			if k, ok := argConst(cc, 0); ok {
				out = append(out, fmt.Sprintf("%s:%d", name, k))
			} else {
				out = append(out, name+":?")
			}
		}
		switch f {
		case r.lock:
			keyed("lock")
		case r.unlock:
			keyed("unlock")
		case r.stop:
			keyed("stop")
		case r.force:
			keyed("force")
		case r.status:
			if k, ok := argConst(cc, 0); ok && k == r.kClosing {
				out = append(out, "readClosing")
			}
		case r.isUnlock:
		case r.closeBy:
			out = append(out, "closeBy", "readClosing")
		case r.isCloseBy:
			out = append(out, "readClosing")
		case r.closeCallback:
			out = append(out, "closecb")
		case r.opDo:
			out = append(out, "tok.do")
		case r.opDone:
			out = append(out, "tok.done")
		case r.opInuse:
			out = append(out, "tok.inuse")
		case r.opUnused:
			out = append(out, "tok.unused")
		case r.opFree:
			out = append(out, "op.free")
		case r.opControl:
			if k, ok := argConst(cc, 0); ok {
				out = append(out, fmt.Sprintf("ctl:%d", k))
			} else {
				out = append(out, "ctl:?")
			}
		}
		return out
	}
	protoCache[w] = p
	return p
}

func lbl(name string, k int64) string { return fmt.Sprintf("%s:%d", name, k) }

// callSitesOf lists every call/defer/go instruction in the module that statically calls fn,
// sorted by position.
func callSitesOf(w *World, fn *ssa.Function) []ssa.Instruction {
	var out []ssa.Instruction
	for _, f := range w.Funcs {
		forEachIns(f, func(ins ssa.Instruction) {
			if cc := callCommon(ins); cc != nil && cc.StaticCallee() == fn {
				out = append(out, ins)
			}
		})
	}
	sort.SliceStable(out, func(i, j int) bool { return out[i].Pos() < out[j].Pos() })
	return out
}

// siteKey names a call site stably: enclosing function + callee + ordinal within that function.
func siteKey(w *World, ins ssa.Instruction) string {
	fn := ins.Parent()
	desc := func(x ssa.Instruction) string {
		if cc := callCommon(x); cc != nil {
			return callDesc(cc)
		}
		switch y := x.(type) {
		case *ssa.Store:
			return "store:" + stablePath(y.Addr)
		case *ssa.UnOp:
			if y.Op == token.MUL {
				return "load:" + stablePath(y.X)
			}
			if y.Op == token.ARROW {
				return "recv:" + stablePath(y.X)
			}
		case *ssa.Select:
			return "select"
		case *ssa.Return:
			return "return"
		case *ssa.TypeAssert:
			return "assert:" + stablePath(y.X)
		}
		return ""
	}
	callee := desc(ins)
	if callee == "" {
		callee = insText(ins)
	}
	n, idx := 0, 0
	forEachIns(fn, func(x ssa.Instruction) {
		if desc(x) == callee {
			n++
			if x == ins {
				idx = n
			}
		}
	})
	if n > 1 {
		return fmt.Sprintf("%s:%s#%d", w.FnName(fn), callee, idx)
	}
	return fmt.Sprintf("%s:%s", w.FnName(fn), callee)
}

// heldWitness decides the typestate "key k is held at site": it returns a path on which the
// site is reached from a point where the key is not held (function entry when !entryHeld, or
// just after a release) without crossing a successful trylock edge; nil means Held.
func (p *protoFx) heldWitness(fn *ssa.Function, site ssa.Instruction, k int64, entryHeld bool, s *Search) *Witness {
	acq := callResultAtom(p.r.lock, true, k)
	var starts []Start
	if !entryHeld {
		starts = append(starts, Entry(fn))
	}
	rel := lbl("unlock", k)
	forEachIns(fn, func(ins ssa.Instruction) {
		if _, ok := ins.(*ssa.Call); !ok {
			return
		}
		if p.May(ins, rel) {
			starts = append(starts, After(ins))
		}
	})
	if len(starts) == 0 {
		return nil
	}
	ss := &Search{Fn: fn}
	if s != nil {
		ss.Assume = s.Assume
	}
	ss.CutEdge = func(ifi *ssa.If, cond ssa.Value, branch bool) bool { return implies(cond, branch, acq) }
	w := ss.Find(starts, func(ins ssa.Instruction) bool { return ins == site }, false)
	if s != nil {
		s.Visited += ss.Visited
	}
	return w
}

// edgesEstablishing returns the starts of all branch edges in fn on which the fact is established.
func edgesEstablishing(fn *ssa.Function, a Atom) []Start {
	var out []Start
	for _, b := range fn.Blocks {
		if len(b.Instrs) == 0 {
			continue
		}
		ifi, ok := b.Instrs[len(b.Instrs)-1].(*ssa.If)
		if !ok {
			continue
		}
		// a phi condition is resolved per predecessor; handle the direct case and the
		// per-predecessor case
		if phi, ok := ifi.Cond.(*ssa.Phi); ok && phi.Block() == b {
			for pi, e := range phi.Edges {
				for _, br := range []bool{true, false} {
					if implies(e, br, a) {
						st := OnEdge(ifi, br)
						_ = pi
						out = append(out, st)
					}
				}
			}
			continue
		}
		for _, br := range []bool{true, false} {
			if implies(ifi.Cond, br, a) {
				out = append(out, OnEdge(ifi, br))
			}
		}
	}
	return out
}

// paramAssume specialises a function on constant boolean parameters.
func paramAssume(fn *ssa.Function, vals map[string]bool) func(ssa.Value) (bool, bool) {
	return func(v ssa.Value) (bool, bool) {
		if p, ok := v.(*ssa.Parameter); ok && p.Parent() == fn {
			if b, ok := vals[p.Name()]; ok {
				return b, true
			}
		}
		return false, false
	}
}

// isStoreTo: ins stores into struct field Type.field (any base).
func isStoreToField(ins ssa.Instruction, typ, field string) bool {
	st, ok := ins.(*ssa.Store)
	if !ok {
		return false
	}
	tn, fn, _, ok := fieldOf(st.Addr)
	return ok && tn == typ && fn == field
}

// loadOfField: v is a load (UnOp *) of struct field Type.field; returns the base value.
func loadOfField(v ssa.Value, typ, field string) (ssa.Value, bool) {
	u, ok := v.(*ssa.UnOp)
	if !ok || u.Op != token.MUL {
		return nil, false
	}
	tn, fn, base, ok := fieldOf(u.X)
	if ok && tn == typ && fn == field {
		return base, true
	}
	return nil, false
}

// stablePath is pathOf with SSA register names (t12) replaced by a placeholder, so that keys do
// not depend on register numbering.
func stablePath(v ssa.Value) string {
	p := pathOf(v)
	out := make([]byte, 0, len(p))
	for i := 0; i < len(p); i++ {
		if p[i] == 't' && i+1 < len(p) && p[i+1] >= '0' && p[i+1] <= '9' && (i == 0 || !isIdentByte(p[i-1])) {
			j := i + 1
			for j < len(p) && p[j] >= '0' && p[j] <= '9' {
				j++
			}
			if j == len(p) || !isIdentByte(p[j]) {
				out = append(out, '_')
				i = j - 1
				continue
			}
		}
		out = append(out, p[i])
	}
	return string(out)
}

func isIdentByte(c byte) bool {
	return c == '_' || (c >= 'a' && c <= 'z') || (c >= 'A' && c <= 'Z') || (c >= '0' && c <= '9')
}
