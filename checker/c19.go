package main

import (
	"fmt"
	"go/token"
	"go/types"
	"sort"
	"strings"

	"golang.org/x/tools/go/ssa"
)

func init() {
	register("C19",
		"Decides three structural necessary conditions of race freedom outside the documented buffer exemption: (1) atomic discipline - every struct field that is accessed through sync/atomic anywhere is accessed through sync/atomic everywhere, apart from a frozen table of initialisation / single-owner sites, each with its reason (whole-struct copies included); (2) guarded-by - the operator cache's free list and cache slice, its pending-free list, the ShardQueue shards and ring index, and the connection's adaptive sizes are only touched under their spin lock / mutex / slot token or from the poller-invoked callbacks; (3) race-build substitution is complete - under -tags race no call outside SafeLinkBuffer reaches an *UnsafeLinkBuffer method through promotion unless that method only touches atomic state, and every SafeLinkBuffer override has the shape Lock / defer Unlock / delegate to the same-named method with the same arguments. eventLoop.svr is accessed under the loop's mutex; onDisconnect reads connection.ctx only after lock(connecting) or onConnect==nil. Not decided: race freedom in general (needs the detector and schedules), accesses that the API contract makes single-threaded.",
		[]string{"sync/atomic is linearizable", "the API's concurrency contract: one reader, one writer, any number of closers per connection"},
		func(r *Run) {
			cfgs := []string{"linux", "linux-race"}
			if r.Tier == "thorough" {
				cfgs = []string{"linux", "linux-race", "darwin", "linux-arm64", "freebsd"}
			}
			for _, c := range cfgs {
				if r.useOpt(c) == nil {
					continue
				}
				c19(r)
			}
		})
}

// plainExempt: (function, field) -> reason for a non-atomic access to an otherwise atomic field.
var plainExempt = map[string]string{
	"(*FDOperator).reset|FDOperator.detached":                 "token-ordered: reset runs in freeable() after unused() obtained the slot from any in-flight dispatch; the slot is not registered",
	"(*UnsafeLinkBuffer).Slice|UnsafeLinkBuffer.length":       "fresh object: the Slice reader is not yet visible to anyone else",
	"(*UnsafeLinkBuffer).WriteBuffer|UnsafeLinkBuffer.length": "donor reset: the appended buffer must not be used any more (documented), single owner",
	"(*connection).init|connection.state":                     "pre-publication: the connection is not registered with a poller yet",
	"(*UnsafeLinkBuffer).MallocAck|linkBufferNode.refer":      "writer-private: only nodes behind the write cursor (never flushed, never sliced) are reset",
	"newLinkBufferNode|linkBufferNode.refer":                  "fresh object taken from the pool",
	"init$|linkBufferNode.refer":                              "pool constructor literal",
	"(*manager).Close|manager.numLoops":                       "contract: Close is not concurrent with Pick / SetNumLoops",
	"mux.NewShardQueue|ShardQueue.locks":                      "constructor",
	// whole-struct copies
	"(*connection).initNetFD|netFD.closed": "pre-publication copy of the dialled/accepted netFD into the new connection",
	"(*server).Run|FDOperator.state":       "listener slot literal assigned before registration",
	"(*server).Run|FDOperator.detached":    "listener slot literal assigned before registration",
	"(*connection).initNetFD|netFD(copy)":  "pre-publication copy",
	"(*server).Run|FDOperator(copy)":       "listener slot literal assigned before registration",
	"mux.NewShardQueue|queueTrigger(copy)": "constructor",
	"mux.NewShardQueue|ShardQueue(copy)":   "constructor",
}

func exemptReason(fnName, field string) string {
	if r, ok := plainExempt[fnName+"|"+field]; ok {
		return r
	}
	// anonymous package initialisers: init$1, init$2 ...
	if strings.HasPrefix(fnName, "init$") {
		if r, ok := plainExempt["init$|"+field]; ok {
			return r
		}
	}
	return ""
}

func c19(r *Run) {
	w := r.W
	// ---- R1 atomic discipline ------------------------------------------------------------------------
	atomicField := map[string]bool{} // Type.field accessed atomically (directly)
	atomicElem := map[string]bool{}  // Type.field whose *elements* are accessed atomically
	for _, f := range w.Funcs {
		forEachIns(f, func(ins ssa.Instruction) {
			a := asAtomic(ins)
			if a == nil {
				return
			}
			name := structFieldOfAddr(a.Addr)
			if name == "" {
				return
			}
			if viaIndex(a.Addr) {
				atomicElem[name] = true
			} else {
				atomicField[name] = true
			}
		})
	}
	if len(atomicField)+len(atomicElem) < 12 {
		r.absentf(" C19: only %d atomically accessed fields found", len(atomicField)+len(atomicElem))
	}
	// struct types that contain an atomic field (for whole-struct copies)
	atomicStructs := map[string][]string{}
	for name := range atomicField {
		parts := strings.SplitN(name, ".", 2)
		atomicStructs[parts[0]] = append(atomicStructs[parts[0]], name)
	}
	nPlain := 0
	seenKey := map[string]bool{}
	for _, f := range w.Funcs {
		fnName := w.FnName(f)
		forEachIns(f, func(ins ssa.Instruction) {
			var addr ssa.Value
			kind := ""
			switch x := ins.(type) {
			case *ssa.UnOp:
				if x.Op == token.MUL {
					addr, kind = x.X, "load"
				}
			case *ssa.Store:
				addr, kind = x.Addr, "store"
			}
			if addr == nil {
				return
			}
			name := structFieldOfAddr(addr)
			if name != "" {
				isElem := viaIndex(addr)
				if (atomicField[name] && !isElem) || (atomicElem[name] && isElem) {
					// atomic.Value typed fields are accessed through methods only; a plain load/store of the field itself is a copy
					nPlain++
					reason := exemptReason(fnName, name)
					key := "C19.R1:plain-access:" + fnName + ":" + name + ":" + kind
					if seenKey[key] {
						return
					}
					seenKey[key] = true
					r.ob(key, "a field accessed through sync/atomic anywhere is accessed through sync/atomic everywhere, except at listed initialisation / single-owner sites", f, ins, reason != "", "plain "+kind+" of "+name+"; exemption: "+reason, false)
				}
			}
			// whole-struct copies
			var t types.Type
			if st, ok := ins.(*ssa.Store); ok {
				t = st.Val.Type()
			} else if u, ok := ins.(*ssa.UnOp); ok {
				t = u.Type()
			}
			if t != nil {
				if _, isStruct := t.Underlying().(*types.Struct); isStruct {
					tn := namedTypeName(t)
					if _, has := atomicStructs[tn]; has {
						// stores into a fresh local (composite literal being built) are not shared
						if a, ok := addr.(*ssa.Alloc); ok && !a.Heap {
							return
						}
						reason := exemptReason(fnName, tn+"(copy)")
						key := "C19.R1:struct-copy:" + fnName + ":" + tn + ":" + kind
						if seenKey[key] {
							return
						}
						seenKey[key] = true
						r.ob(key, "a struct holding atomically accessed fields is copied as a whole only before it is shared", f, ins, reason != "", "whole-struct "+kind+" of "+tn+"; exemption: "+reason, false)
					}
				}
			}
		})
	}
	var fields []string
	for n := range atomicField {
		fields = append(fields, n)
	}
	for n := range atomicElem {
		fields = append(fields, n+"[]")
	}
	sort.Strings(fields)
	r.ob("C19.R1:census", "atomic discipline census", nil, nil, true, fmt.Sprintf("%d atomic fields: %s; %d plain accesses examined", len(fields), strings.Join(fields, ", "), nPlain), false)

	// fields that two goroutines touch without a common lock and that therefore have to be atomic, although nothing forces
	// it yet (no access is atomic today): one line of reason per field
	mustBeAtomic := map[string]string{
		"netFD.detaching": "set by Detach() on a user goroutine, read by netFD.Close on whichever goroutine runs the finalizer (the poller's hang-up goroutine, the handler task, another Close)",
	}
	for _, f := range w.Funcs {
		forEachIns(f, func(ins ssa.Instruction) {
			var addr ssa.Value
			switch x := ins.(type) {
			case *ssa.UnOp:
				if x.Op == token.MUL {
					addr = x.X
				}
			case *ssa.Store:
				addr = x.Addr
			}
			if addr == nil {
				return
			}
			tn, fld, _, ok := fieldOf(addr)
			if !ok {
				return
			}
			why, listed := mustBeAtomic[tn+"."+fld]
			if !listed {
				return
			}
			r.ob("C19.R1:shared-flag-is-atomic:"+tn+"."+fld+":"+w.FnName(f), tn+"."+fld+" is accessed through sync/atomic only: "+why, f, ins, false, "plain access", false)
		})
	}
	for name := range mustBeAtomic {
		r.ob("C19.R1:shared-flag-is-atomic:"+name, name+" is declared and accessed atomically", nil, nil, atomicField[name], "atomic accesses found", false)
	}

	// ---- R2 guarded-by ----------------------------------------------------------------------------------
	spin := func(suffix string) (acq, rel func(ssa.Instruction) bool) {
		lockFn, unlockFn := w.MustFn("lock"), w.MustFn("unlock")
		acq = func(i ssa.Instruction) bool {
			return isCall(i, lockFn) && strings.HasSuffix(pathOf(callCommon(i).Args[0]), suffix)
		}
		rel = func(i ssa.Instruction) bool {
			return isCall(i, unlockFn) && strings.HasSuffix(pathOf(callCommon(i).Args[0]), suffix)
		}
		return
	}
	guardedBy := func(typ, field string, acq, rel func(ssa.Instruction) bool, lockName string, exemptFns map[string]string) {
		n := 0
		for _, f := range w.Funcs {
			fnName := w.FnName(f)
			for _, ins := range findIns(f, func(i ssa.Instruction) bool {
				var addr ssa.Value
				switch x := i.(type) {
				case *ssa.UnOp:
					if x.Op == token.MUL {
						addr = x.X
					}
				case *ssa.Store:
					addr = x.Addr
				}
				if addr == nil {
					return false
				}
				tn, fld, _, ok := fieldOf(addr)
				return ok && tn == typ && fld == field
			}) {
				n++
				key := "C19.R2:guarded:" + typ + "." + field + ":" + siteKey(w, ins)
				if why, ok := exemptFns[fnName]; ok {
					r.ob(key, typ+"."+field+" is accessed only under "+lockName, f, ins, true, "exempt: "+why, false)
					continue
				}
				starts := append([]Start{Entry(f)}, startsAfter(findIns(f, func(i ssa.Instruction) bool {
					_, isDefer := i.(*ssa.Defer)
					return !isDefer && rel(i)
				}))...)
				ss := &Search{Fn: f, Stop: acq}
				wit := ss.Find(starts, isIns(ins), false)
				r.Visited += ss.Visited
				r.obW(key, typ+"."+field+" is accessed only under "+lockName, f, ins, wit, "between acquire and release of "+lockName)
			}
		}
		if n == 0 {
			r.ob("C19.R2:guarded:"+typ+"."+field, typ+"."+field+" exists", nil, nil, false, "no access found: anchor lost", false)
		}
	}
	// the spin locks really lock: lock() returns only after its compare-and-swap 0->1 succeeded
	{
		fns := []*ssa.Function{w.MustFn("lock")}
		if w.Mux != nil {
			if f := w.Fn("(*mux.ShardQueue).lock"); f != nil {
				fns = append(fns, f)
			}
		}
		for _, fn := range fns {
			won := func(v ssa.Value) (bool, bool) {
				c, ok := v.(*ssa.Call)
				if !ok {
					return false, false
				}
				a := asAtomic(c)
				if a == nil || a.Op != "CompareAndSwap" {
					return false, false
				}
				o, ok1 := constInt(a.Args[0])
				n, ok2 := constInt(a.Args[1])
				if ok1 && ok2 && o == 0 && n == 1 {
					return true, true
				}
				return false, false
			}
			ss := &Search{Fn: fn, CutEdge: cutOn(won)}
			wit := ss.Find([]Start{Entry(fn)}, nil, true)
			r.Visited += ss.Visited
			r.obW("C19.R2:spin-lock-acquires:"+w.FnName(fn), "the spin lock's lock() returns only on the edge where its CompareAndSwap(0,1) succeeded: everything 'guarded by' this lock relies on it", fn, nil, wit, "the only exit is the CAS-success edge")
		}
	}
	aL, rL := spin(".locked")
	aF, rF := spin(".freelocked")
	ctor := map[string]string{"newOperatorCache": "constructor"}
	guardedBy("operatorCache", "first", aL, rL, "the cache spin lock (locked)", ctor)
	guardedBy("operatorCache", "cache", aL, rL, "the cache spin lock (locked)", ctor)
	guardedBy("operatorCache", "freelist", aF, rF, "the pending-free spin lock (freelocked)", ctor)
	if w.Mux != nil {
		isML := func(name string) func(ssa.Instruction) bool {
			return func(i ssa.Instruction) bool {
				f := calleeOf(i)
				return f != nil && f.Name() == name && f.Pkg != nil && f.Pkg.Pkg.Path() == "sync" && strings.HasSuffix(pathOf(callCommon(i).Args[0]), ".listLock")
			}
		}
		guardedBy("queueTrigger", "w", isML("Lock"), isML("Unlock"), "listLock", map[string]string{"mux.NewShardQueue": "constructor"})
	}
	// eventLoop.svr: Serve and Shutdown run on different goroutines, the handle is read and written under the loop's mutex
	{
		isEL := func(name string) func(ssa.Instruction) bool {
			return func(i ssa.Instruction) bool {
				f := calleeOf(i)
				if f == nil || f.Name() != name || f.Pkg == nil || f.Pkg.Pkg.Path() != "sync" {
					return false
				}
				tn, _, _, ok := fieldOf(callCommon(i).Args[0])
				return ok && tn == "eventLoop"
			}
		}
		guardedBy("eventLoop", "svr", isEL("Lock"), isEL("Unlock"), "the event loop's mutex", map[string]string{})
	}
	// connection.ctx: written by the connect task while it holds the connecting lock; the disconnect side reads it only after it
	// has taken that lock, or after it saw that no OnConnect is installed (no writer)
	{
		ro := r.roles()
		fn := ro.onDisconnectM
		isOnConnLoad := func(v ssa.Value) bool {
			c, ok := v.(*ssa.Call)
			if !ok {
				return false
			}
			a := asAtomic(c)
			return a != nil && a.Op == "Load" && structFieldOfAddr(a.Addr) == "onEvent.onConnectCallback"
		}
		noWriter := func(v ssa.Value) (bool, bool) {
			b, ok := v.(*ssa.BinOp)
			if !ok || (b.Op != token.EQL && b.Op != token.NEQ) {
				return false, false
			}
			for _, side := range [][2]ssa.Value{{b.X, b.Y}, {b.Y, b.X}} {
				x := side[0]
				if e, isE := x.(*ssa.Extract); isE {
					if ta, isTA := e.Tuple.(*ssa.TypeAssert); isTA {
						x = ta.X
					}
				}
				if ta, isTA := x.(*ssa.TypeAssert); isTA {
					x = ta.X
				}
				if (isOnConnLoad(x) || namedTypeName(side[0].Type()) == "OnConnect") && isNilConst(side[1]) {
					return b.Op == token.EQL, true
				}
			}
			return false, false
		}
		kC := r.W.ConstInt("connecting")
		owns := anyAtom(noWriter, callResultAtom(ro.lock, true, kC))
		n := 0
		for _, ins := range findIns(fn, func(i ssa.Instruction) bool { _, ok := loadOfFieldIns(i, "onEvent", "ctx"); return ok }) {
			n++
			r.guarded("C19.R2:ctx-read-by-disconnect:"+ordinal(n), "onDisconnect reads connection.ctx (which the OnConnect task overwrites with OnConnect's result while it holds the connecting lock) only after it took the connecting lock itself or saw that no OnConnect is installed", fn, ins, owns, nil, "guarded by lock(connecting) | onConnect == nil")
		}
		if n == 0 {
			r.absentf(" C19: onDisconnect does not read connection.ctx")
		}
	}
	// the close-callback list: registration is one step and links before it publishes; the slot is touched by a closer only
	// once it owns the teardown (C05)
	r.borrow([]string{"C05.R5:register-is-one-step", "C05.R5:node-linked-before-published", "C05.R12:detach-after-lock"}, "C05.R", "C19.R2.c05.", func() { c05(r) })
	// a slot is rewritten only after the poller left it (C10.R3)
	r.borrow([]string{"C10.R3:freeable-waits-before-reset", "C10.R3:freeable-reset-before-queue"}, "C10.R3", "C19.R2.c10", func() { c10(r) })
	// connection.maxSize / bookSize: poller callbacks, Release under the slot token, init
	{
		ro := r.roles()
		tokA := func(i ssa.Instruction) bool { return false }
		_ = tokA
		seenAdaptive := map[string]bool{}
		for _, field := range []string{"maxSize", "bookSize"} {
			for _, f := range w.Funcs {
				for _, ins := range findIns(f, func(i ssa.Instruction) bool {
					if isStoreToField(i, "connection", field) {
						return true
					}
					_, isLoad := loadOfFieldIns(i, "connection", field)
					return isLoad
				}) {
					name := w.FnName(f)
					kind := "store"
					if _, isLoad := loadOfFieldIns(ins, "connection", field); isLoad {
						kind = "load"
					}
					key := "C19.R2:adaptive-size:" + field + ":" + name + ":" + kind
					if seenAdaptive[key] {
						continue
					}
					seenAdaptive[key] = true
					switch name {
					case "(*connection).init":
						r.ob(key, "connection."+field+" is read and written only by the poller callbacks, by Release under the slot token, or before publication", f, ins, true, "pre-publication", false)
					case "(*connection).inputAck", "(*connection).inputs":
						r.ob(key, "connection."+field+" is read and written only by the poller callbacks, by Release under the slot token, or before publication", f, ins, true, "poller callback (slot token held by the dispatch function)", false)
					default:
						doOK := callResultAtom(ro.opDo, true)
						r.guarded(key, "connection."+field+" is read and written only by the poller callbacks, by Release under the slot token, or before publication", f, ins, doOK, nil, "guarded by operator.do()==true")
					}
				}
			}
		}
	}

	// onPrepare publishes the connection to its poller with register(): from then on the poller and the handler task read
	// the connection's plain fields, so the accepting goroutine writes none of them afterwards
	{
		prep := w.MustFn("(*connection).onPrepare")
		reg := w.MustFn("(*connection).register")
		regs := findIns(prep, func(i ssa.Instruction) bool { return isCall(i, reg) })
		if len(regs) == 0 {
			r.absentf(" C19: onPrepare does not call register()")
		}
		plainFieldStore := func(i ssa.Instruction) bool {
			st, ok := i.(*ssa.Store)
			if !ok {
				return false
			}
			fa, ok := st.Addr.(*ssa.FieldAddr)
			if !ok {
				return false
			}
			n := namedTypeName(fa.X.Type())
			return n == "connection" || n == "onEvent"
		}
		r.neverReach("C19.R2:nothing-written-after-registration", "after onPrepare registered the connection with its poller it writes no plain field of the connection any more (the poller's callbacks and a handler task started by the first input read ctx, the handlers and the buffers without synchronisation with the accepting goroutine)", prep, nil, startsAfter(regs), plainFieldStore, nil, nil, nil, "no store to a connection field reachable after register()")
	}
	r.borrow([]string{"C15.R2:who-writes-listener"}, "C15.R2", "C19.R2.listener", func() { c15(r) })

	// the flushing lock protects the flusher's use of the slot: it is stopped before the slot is freed
	if w.Cfg.Name == "linux" {
		r.borrow([]string{"C05.R8:stop-flushing-first"}, "C05.R8", "C19.R2", func() { c05(r) })
	}

	// slot fields are touched only while the slot token is held (C10.R2, C11.R1); the ShardQueue ring slot is written
	// before the counter that publishes it and shards are touched under their lock (C17)
	if w.Cfg.Name == "linux" {
		r.borrow([]string{"C10.R2:field-under-token", "C10.R1:helper-releases-last"}, "C10.R", "C19.R2.slot.", func() { c10(r) })
		r.borrow([]string{"C11.R1:queue-before-release"}, "C11.R1", "C19.R2.slot", func() { c11(r) })
		if w.Mux != nil {
			r.borrow([]string{"C17.R1:ring-before-counter", "C17.R3:getters-under-shard-lock", "C17.R3:ring-write-under-listLock", "C17.R3:emptied-shard-does-not-share-the-batch"}, "C17.R", "C19.R2.mux.", func() { c17(r) })
		}
	}

	// ---- R3 race-build substitution --------------------------------------------------------------------
	if w.Cfg.Tags == "race" {
		c19Race(r)
	} else {
		// in the normal build LinkBuffer is the unsafe buffer itself
		lb := w.Main.Pkg.Scope().Lookup("LinkBuffer")
		isAlias := false
		if tn, ok := lb.(*types.TypeName); ok {
			isAlias = tn.IsAlias() && namedTypeName(tn.Type()) == "UnsafeLinkBuffer"
		}
		r.ob("C19.R3:norace-alias", "without the race tag LinkBuffer is UnsafeLinkBuffer", nil, nil, isAlias, "type LinkBuffer = UnsafeLinkBuffer", false)
	}
}

func viaIndex(v ssa.Value) bool {
	_, ok := v.(*ssa.IndexAddr)
	return ok
}

// atomicOnly: the unsafe-buffer methods that touch nothing but atomic state.
func atomicOnlyMethod(w *World, fn *ssa.Function, depth int) bool {
	if depth > 3 {
		return false
	}
	ok := true
	forEachIns(fn, func(ins ssa.Instruction) {
		switch x := ins.(type) {
		case *ssa.Store:
			if _, _, _, isField := fieldOf(x.Addr); isField {
				ok = false
			}
		case *ssa.UnOp:
			if x.Op == token.MUL {
				if _, _, _, isField := fieldOf(x.X); isField {
					ok = false
				}
			}
		case *ssa.Call:
			if asAtomic(x) != nil {
				return
			}
			if f := x.Call.StaticCallee(); f != nil && f.Blocks != nil && isModulePkg(f.Pkg.Pkg) {
				if !atomicOnlyMethod(w, f, depth+1) {
					ok = false
				}
				return
			}
			if x.Call.StaticCallee() == nil {
				ok = false
			}
		}
	})
	return ok
}

func c19Race(r *Run) {
	w := r.W
	safe := w.NamedType("SafeLinkBuffer")
	unsafeT := w.NamedType("UnsafeLinkBuffer")
	// methods declared on *SafeLinkBuffer
	declared := map[string]*ssa.Function{}
	for _, f := range w.Funcs {
		if f.Signature.Recv() != nil && isPointerToNamed(f.Signature.Recv().Type(), "SafeLinkBuffer") && f.Parent() == nil {
			declared[f.Name()] = f
		}
	}
	if len(declared) < 20 {
		r.absentf(" C19: only %d SafeLinkBuffer methods", len(declared))
	}
	// (a) every override: Lock; defer Unlock; delegate same name, same args
	var names []string
	for n := range declared {
		names = append(names, n)
	}
	sort.Strings(names)
	for _, n := range names {
		f := declared[n]
		if _, hasUnsafe := w.byName["(*UnsafeLinkBuffer)."+n]; !hasUnsafe {
			// declared on the LinkBuffer alias only (no unsafe counterpart): acceptable when nothing in the library calls it
			nc := len(callSitesOf(w, f))
			r.ob("C19.R3:alias-only-method:"+n, "a method declared on the LinkBuffer alias without a locked/unsafe pair is not used by the library (diagnostic helper)", f, nil, nc == 0, fmt.Sprintf("%d library call sites", nc), false)
			continue
		}
		var lockAt, deferAt, delegAt ssa.Instruction
		argsOK := false
		forEachIns(f, func(ins ssa.Instruction) {
			cc := callCommon(ins)
			if cc == nil {
				return
			}
			cal := cc.StaticCallee()
			if cal == nil {
				return
			}
			isMu := cal.Pkg != nil && cal.Pkg.Pkg.Path() == "sync"
			switch {
			case isMu && cal.Name() == "Lock":
				if _, ok := ins.(*ssa.Call); ok {
					lockAt = ins
				}
			case isMu && cal.Name() == "Unlock":
				if _, ok := ins.(*ssa.Defer); ok {
					deferAt = ins
				}
			case cal.Signature.Recv() != nil && isPointerToNamed(cal.Signature.Recv().Type(), "UnsafeLinkBuffer") && cal.Name() == n:
				delegAt = ins
				// receiver is &b.UnsafeLinkBuffer, arguments are the parameters in order
				ok := len(cc.Args) == len(f.Params)
				if ok {
					for i := 1; i < len(cc.Args); i++ {
						if cc.Args[i] != ssa.Value(f.Params[i]) {
							ok = false
						}
					}
				}
				argsOK = ok
			}
		})
		good := lockAt != nil && deferAt != nil && delegAt != nil && argsOK
		detail := fmt.Sprintf("Lock=%v deferUnlock=%v delegate=%v sameArgs=%v", lockAt != nil, deferAt != nil, delegAt != nil, argsOK)
		if good {
			// order: Lock dominates the delegate call
			ss := &Search{Fn: f, Stop: isIns(lockAt)}
			if ss.Find([]Start{Entry(f)}, isIns(delegAt), false) != nil {
				good = false
				detail += " (delegate reachable without Lock)"
			}
			ss2 := &Search{Fn: f, Stop: isIns(deferAt)}
			if ss2.Find([]Start{Entry(f)}, isIns(delegAt), false) != nil {
				good = false
				detail += " (delegate reachable before defer Unlock)"
			}
			r.Visited += ss.Visited + ss2.Visited
		}
		r.ob("C19.R3:override-shape:"+n, "every SafeLinkBuffer method is Lock / defer Unlock / delegate to the same-named unsafe method with the same arguments", f, nil, good, detail, true)
	}
	// (b) promoted unsafe methods reachable through a SafeLinkBuffer value from outside must be atomic-only
	nSites := 0
	seen := map[string]bool{}
	for _, f := range w.Funcs {
		if f.Signature.Recv() != nil && (isPointerToNamed(f.Signature.Recv().Type(), "SafeLinkBuffer") || isPointerToNamed(f.Signature.Recv().Type(), "UnsafeLinkBuffer")) {
			continue // the buffer's own methods run under the caller's lock
		}
		forEachIns(f, func(ins ssa.Instruction) {
			cc := callCommon(ins)
			if cc == nil {
				return
			}
			cal := cc.StaticCallee()
			if cal == nil || cal.Signature.Recv() == nil || !isPointerToNamed(cal.Signature.Recv().Type(), "UnsafeLinkBuffer") {
				return
			}
			// receiver: &x.UnsafeLinkBuffer with x a *SafeLinkBuffer
			fa, ok := cc.Args[0].(*ssa.FieldAddr)
			if !ok {
				return
			}
			if tn, _, _, _ := fieldOf(fa); tn != "SafeLinkBuffer" {
				return
			}
			nSites++
			key := "C19.R3:promoted:" + w.FnName(f) + ":" + cal.Name()
			if seen[key] {
				return
			}
			seen[key] = true
			r.ob(key, "under -tags race a call that reaches an unsafe buffer method through promotion (no locked override) must be a method that touches only atomic state", f, ins, atomicOnlyMethod(w, cal, 0), "promoted call of (*UnsafeLinkBuffer)."+cal.Name(), true)
		})
	}
	// (c) every method of the unsafe buffer that writes buffer state has an override
	ms := w.Prog.MethodSets.MethodSet(types.NewPointer(unsafeT))
	for i := 0; i < ms.Len(); i++ {
		m := w.Prog.MethodValue(ms.At(i))
		if m == nil || m.Blocks == nil {
			continue
		}
		if _, has := declared[m.Name()]; has {
			continue
		}
		// not overridden: acceptable only if atomic-only or never called through a SafeLinkBuffer from outside (checked in b)
		used := false
		for k := range seen {
			if strings.HasSuffix(k, ":"+m.Name()) {
				used = true
			}
		}
		r.ob("C19.R3:no-override:"+m.Name(), "an unsafe buffer method without a locked override is either atomic-only or only used by the buffer's own (locked) methods", m, nil, atomicOnlyMethod(w, m, 0) || !used, fmt.Sprintf("atomicOnly=%v usedFromOutside=%v", atomicOnlyMethod(w, m, 0), used), true)
	}
	_ = safe
	r.Notes = append(r.Notes, fmt.Sprintf("race build: %d overrides, %d promoted call sites", len(declared), nSites))
}

func loadOfFieldIns(i ssa.Instruction, typ, field string) (ssa.Value, bool) {
	u, ok := i.(*ssa.UnOp)
	if !ok {
		return nil, false
	}
	return loadOfField(u, typ, field)
}
