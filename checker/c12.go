package main

import (
	"fmt"
	"go/token"
	"go/types"

	"golang.org/x/tools/go/ssa"
)

func init() {
	register("C12",
		"Decides the structural premises of 'a closed connection answers with errors': every method of the connection's Writer method set (and Write) uses the output buffer only under IsActive()==true and returns Exception(ErrConnClosed) on the other branch, before anything else happens; the Reader methods consume only after waitRead returned nil and the wait loop maps the closing state to ErrEOF / ErrConnClosed without blocking (shared with C07); the enumerated panic sources on closed state are guarded (nil address, slot use in Release); an ErrEOF exception matches ErrConnClosed under errors.Is; Close is idempotent by the exactly-once premises of C05 (onClose always reaches the callback runner attempt and returns nil). The sized reader methods dereference the read cursor only behind n>0 (a recycled buffer has a nil chain); the finalizer stops flushing before it frees anything. Not decided: behaviour of arbitrary buffer methods on a recycled (nil-chain) buffer beyond the enumerated sources.",
		[]string{"sync/atomic is linearizable"},
		func(r *Run) {
			cfgs := []string{"linux"}
			if r.Tier == "thorough" {
				cfgs = []string{"linux", "linux-race", "darwin"}
			}
			for _, c := range cfgs {
				if r.useOpt(c) == nil {
					continue
				}
				c12(r)
			}
		})
}

func c12(r *Run) {
	w := r.W
	ro := r.roles()
	active := activeFact(ro)
	inactive := closedFact(ro)

	// ---- R1 writer guard (sibling rule over the Writer method set) ---------------------------------
	writerIface := w.NamedType("Writer").Underlying().(*types.Interface)
	connT := w.NamedType("connection")
	var names []string
	for i := 0; i < writerIface.NumMethods(); i++ {
		names = append(names, writerIface.Method(i).Name())
	}
	names = append(names, "Write")
	if len(names) < 9 {
		broken("ANCHOR-LOST C12: Writer interface has %d methods", len(names))
	}
	for _, name := range names {
		fn := w.Fn("(*connection)." + name)
		if fn == nil {
			// promoted? the connection must implement it itself
			r.ob("C12.R1:writer-method:"+name, "the connection implements every Writer method itself (with its closed-state guard)", nil, nil, false, "method "+name+" not declared on *connection ("+connT.String()+")", false)
			continue
		}
		uses := findIns(fn, func(i ssa.Instruction) bool {
			_, ok := callOnField(i, "connection", "outputBuffer")
			return ok
		})
		hasErr := fn.Signature.Results().Len() > 0 && isErrorType(fn.Signature.Results().At(fn.Signature.Results().Len()-1).Type())
		if !hasErr {
			// MallocLen: no error result; must not be able to panic on the recycled buffer: it only reads a counter
			r.ob("C12.R1:no-error-result:"+name, "a Writer method without an error result only reads a counter of the output buffer", fn, nil, len(uses) <= 1, fmt.Sprintf("%d buffer uses", len(uses)), false)
			continue
		}
		if len(uses) == 0 {
			r.ob("C12.R1:uses-output:"+name, "the Writer method operates on the output buffer", fn, nil, false, "no output buffer use found", false)
		}
		for i, u := range uses {
			r.guarded(fmt.Sprintf("C12.R1:guarded:%s#%d", name, i+1), "Writer methods touch the output buffer only after observing IsActive()==true (after the close the buffer is recycled)", fn, u, active, nil, "guarded by IsActive()")
		}
		starts := edgesEstablishing(fn, inactive)
		r.mustPass("C12.R1:closed-returns-ErrConnClosed:"+name, "on a closed connection the Writer method returns Exception(ErrConnClosed)", fn, nil, starts, w.isException("ErrConnClosed"), nil, nil, "Exception(ErrConnClosed) on every path from the inactive edge")
		r.neverReach("C12.R1:closed-touches-nothing:"+name, "the closed branch neither touches the buffer nor takes a lock", fn, nil, starts,
			func(i ssa.Instruction) bool {
				if _, ok := callOnField(i, "connection", "outputBuffer"); ok {
					return true
				}
				return isCallOrDefer(i, ro.lock)
			}, nil, nil, nil, "no buffer use / lock reachable")
		// the guard is the first thing: nothing blocking or state-changing before it
		pxx := protoEffects(w)
		r.mustPass("C12.R1:guard-first:"+name, "the closed-state test is on every path of the method", fn, nil, []Start{Entry(fn)}, func(i ssa.Instruction) bool { return pxx.Must(i, "readClosing") }, nil, nil, "IsActive() on every path")
	}

	// ---- R2 reader mapping (shared with C07.R2/R5) -------------------------------------------------
	{
		waitRead := w.MustFn("(*connection).waitRead")
		waitOK := cmpAtom(isCallOf(waitRead), isNilConst, eqRel)
		for _, name := range []string{"Next", "Peek", "Skip", "Slice", "ReadString", "ReadBinary", "ReadByte", "Read"} {
			fn := w.Fn("(*connection)." + name)
			if fn == nil {
				r.ob("C12.R2:reader-method:"+name, "the connection implements this Reader method", nil, nil, false, "missing", false)
				continue
			}
			for _, site := range findIns(fn, func(i ssa.Instruction) bool {
				m, ok := callOnField(i, "connection", "inputBuffer")
				return ok && m != "Len" && m != "IsEmpty"
			}) {
				r.guarded("C12.R2:read-after-wait:"+siteKey(w, site), "a Reader method touches the input buffer only when waitRead returned nil (so a closed connection with too little data answers with the mapped error)", fn, site, waitOK, nil, "guarded by waitRead(n)==nil")
			}
			// the wait error is returned as is
			starts := edgesEstablishing(fn, cmpAtom(isCallOf(waitRead), isNilConst, neqRel))
			if name != "Until" {
				ss := &Search{Fn: fn}
				rets := ss.Reachable(starts, func(i ssa.Instruction) bool { _, ok := i.(*ssa.Return); return ok })
				r.Visited += ss.Visited
				ok := len(rets) > 0
				for _, ret := range rets {
					if !lastResultAll(ret.(*ssa.Return), isCallOf(waitRead)) {
						ok = false
					}
				}
				r.ob("C12.R2:wait-error-returned:"+name, "the error of waitRead (ErrEOF / ErrConnClosed / timeout) is what the Reader method returns", fn, nil, ok, "returns waitRead's error", true)
			}
		}
		// waitRead: enough data => nil without looking at the closing state (buffered bytes stay readable after close)
		lenOK := func(v ssa.Value) (bool, bool) {
			b, ok := v.(*ssa.BinOp)
			if !ok {
				return false, false
			}
			// n <= Len()  /  Len() >= n
			if b.Op == token.LEQ && isLenCall(b.Y) {
				return true, true
			}
			if b.Op == token.GEQ && isLenCall(b.X) {
				return true, true
			}
			if b.Op == token.LSS && isLenCall(b.X) {
				return false, true
			}
			if b.Op == token.GTR && isLenCall(b.Y) {
				return false, true
			}
			return false, false
		}
		starts := edgesEstablishing(waitRead, lenOK)
		ss := &Search{Fn: waitRead}
		first := []Start{}
		// only the edges reachable from entry without passing a closing read (the fast path)
		px := protoEffects(w)
		for _, e := range starts {
			pb := e.B.Preds[e.Pred]
			ifi := pb.Instrs[len(pb.Instrs)-1]
			s2 := &Search{Fn: waitRead, Stop: func(i ssa.Instruction) bool { return px.May(i, "readClosing") }}
			if s2.Find([]Start{Entry(waitRead)}, isIns(ifi), false) != nil {
				first = append(first, e)
			}
		}
		_ = ss
		r.mustPassRet(r, "C12.R2:buffered-data-readable-after-close", "when enough bytes are buffered waitRead returns nil without consulting the closing state: data received before the peer closed stays readable", waitRead, first)
	}

	errMappingRules(r, "C12.R2")
	// after the peer closed the buffered bytes stay readable: the closed answers are given only when the bytes are not there
	r.borrow([]string{"C07.R5:closed-only-when-short", "C07.R5:expired-deadline-does-not-hide-close"}, "C07.R5", "C12.R2", func() { c07(r) })
	// a call parked when the connection closes is released (never blocks): the close wake-ups
	closeWakeRules(r, "C12.R2")
	// a recycled buffer reports length 0 (so every later sized read goes to the closed-state answer instead of
	// walking the nil node chain)
	{
		cl := w.MustFn("(*UnsafeLinkBuffer).Close")
		r.mustPass("C12.R3:recycled-buffer-reports-empty", "closing (recycling) a buffer resets its readable length to 0 on every path: a Reader call on the closed connection then needs 'more than is buffered' and gets the closed error instead of dereferencing the recycled node chain", cl, nil, []Start{Entry(cl)}, func(i ssa.Instruction) bool {
			a := asAtomic(i)
			if a != nil && a.Op == "Store" && structFieldOfAddr(a.Addr) == "UnsafeLinkBuffer.length" {
				k, ok := constInt(a.Args[0])
				return ok && k == 0
			}
			if st, ok := i.(*ssa.Store); ok && isStoreToField(i, "UnsafeLinkBuffer", "length") {
				k, okc := constInt(st.Val)
				return okc && k == 0
			}
			return false
		}, nil, nil, "Store(length, 0) on every path")
	}

	// ... and the sized reader methods walk the node chain only for a positive count: with Len()==0 a positive count fails
	// the length test, a non-positive one returns before touching the (recycled, nil) chain
	{
		posCount := func(fn *ssa.Function) Atom {
			isCount := func(v ssa.Value) bool {
				p, ok := v.(*ssa.Parameter)
				if !ok || p.Parent() != fn {
					return false
				}
				b, ok := p.Type().Underlying().(*types.Basic)
				return ok && b.Info()&types.IsInteger != 0
			}
			return anyAtom(
				cmpAtom(isCount, isConstEq(0), func(op token.Token) (bool, bool) {
					switch op {
					case token.GTR:
						return true, true
					case token.LEQ:
						return false, true
					}
					return false, false
				}),
				cmpAtom(isCount, isConstEq(1), func(op token.Token) (bool, bool) {
					switch op {
					case token.GEQ:
						return true, true
					case token.LSS:
						return false, true
					}
					return false, false
				}))
		}
		var unguarded func(fn *ssa.Function, site ssa.Instruction, depth int) *Witness
		unguarded = func(fn *ssa.Function, site ssa.Instruction, depth int) *Witness {
			base := &Search{Fn: fn}
			wit := guardWitness(fn, site, posCount(fn), base)
			r.Visited += base.Visited
			if wit == nil || depth >= 2 || token.IsExported(fn.Name()) {
				return wit
			}
			callers := callSitesOf(w, fn)
			if len(callers) == 0 {
				return wit
			}
			for _, cs := range callers {
				if cw := unguarded(cs.Parent(), cs, depth+1); cw != nil {
					return cw
				}
			}
			return nil
		}
		n := 0
		for _, name := range []string{"Next", "Peek", "Skip", "ReadString", "ReadBinary", "readBinary", "Slice"} {
			fn := w.Fn("(*UnsafeLinkBuffer)." + name)
			if fn == nil || len(fn.Params) < 2 {
				continue
			}
			var bad *Witness
			var at ssa.Instruction
			cnt := 0
			forEachIns(fn, func(i ssa.Instruction) {
				u, ok := i.(*ssa.UnOp)
				if !ok || u.Op != token.MUL || bad != nil {
					return
				}
				if tn, fld, base, ok := fieldOf(u.X); ok && tn == "UnsafeLinkBuffer" && fld == "read" && base == fn.Params[0] {
					cnt++
					if wit := unguarded(fn, i, 0); wit != nil {
						bad, at = wit, i
					}
				}
			})
			if cnt == 0 {
				continue
			}
			n++
			r.obW("C12.R3:chain-walk-needs-positive-count:"+name, "a sized Reader method dereferences the read cursor only after it has seen its count to be positive (n <= 0 returns first): on a closed connection the input buffer is recycled (nil chain, length 0), a positive count then fails the length test and a zero count must not walk the chain - Until's 'return what is left' path calls Next(Len())", fn, at, bad, fmt.Sprintf("%d loads of b.read, all behind n > 0", cnt))
		}
		if n < 4 {
			r.absentf(" C12: only %d sized reader methods walk the chain", n)
		}
	}

	// bytes still buffered when the connection is closed stay readable (no-callback connections): teardown recycles a buffer
	// only when that same buffer is empty, or when callbacks exist (then the handler task is the only reader and it is done)
	{
		fn := w.MustFn("(*connection).closeBuffer")
		isCb := func(v ssa.Value) bool {
			n := namedTypeName(v.Type())
			return n == "OnConnect" || n == "OnRequest"
		}
		n := 0
		for _, field := range []string{"inputBuffer", "outputBuffer"} {
			field := field
			sizeOf := func(v ssa.Value) (string, bool) {
				i, ok := v.(ssa.Instruction)
				if !ok {
					return "", false
				}
				m, ok := callOnField(i, "connection", field)
				return m, ok && (m == "Len" || m == "IsEmpty")
			}
			// the world in which recycling is wrong: no callbacks, this buffer not empty
			bad := func(v ssa.Value) (bool, bool) {
				if m, ok := sizeOf(v); ok && m == "IsEmpty" {
					return false, true
				}
				b, ok := v.(*ssa.BinOp)
				if !ok {
					return false, false
				}
				x, y := b.X, b.Y
				if isNilConst(x) || isConstEq(0)(x) {
					x, y = y, x
				}
				switch {
				case isNilConst(y) && isCb(x):
					return b.Op == token.EQL, b.Op == token.EQL || b.Op == token.NEQ
				case isConstEq(0)(y):
					if m, ok := sizeOf(x); ok && m == "Len" {
						switch b.Op {
						case token.EQL, token.LEQ:
							return false, true
						case token.NEQ, token.GTR:
							return true, true
						}
					}
				}
				return false, false
			}
			for _, site := range findIns(fn, func(i ssa.Instruction) bool {
				m, ok := callOnField(i, "connection", field)
				return ok && m == "Close"
			}) {
				n++
				site := site
				r.neverReach("C12.R2:recycled-only-when-empty:"+field, "teardown recycles the "+field+" only when that same buffer is empty or the connection has callbacks: on a connection without callbacks the bytes buffered at Close stay readable (and a pending output is not freed under the writer)", fn, site, []Start{Entry(fn)},
					func(i ssa.Instruction) bool { return i == site }, nil, nil, bad, "not reachable when "+field+" is non-empty and no callback is set")
			}
		}
		r.ob("C12.R2:recycled-only-when-empty:sites", "closeBuffer recycles both buffers", fn, nil, n >= 2, fmt.Sprintf("%d Close sites", n), false)
	}

	// a Flush that is past its activity test still uses the slot and the buffers: the finalizer waits for it before it frees them
	r.borrow([]string{"C05.R8:stop-flushing-first"}, "C05.R8", "C12.R3", func() { c05(r) })

	// "never block": the pieces whose loss makes a call on a closed connection hang instead of returning - the reused timers
	// are settled without a blocking drain (C07.R4), the flushing lock is given back on every exit (C08.R1: the finalizer
	// waits for it), the poller gives the slot token back on every path (C10.R1: Close waits for it in Free)
	r.borrow([]string{"C07.R4:timer-settled", "C07.R4:timer-armed-before-wait", "C07.R4:no-double-drain", "C07.R4:drain-after-failed-stop"}, "C07.R4", "C12.R6", func() { c07(r) })
	r.borrow([]string{"C08.R1:lock-released", "C08.R4:timer-settled", "C08.R4:timer-armed-before-wait"}, "C08.R", "C12.R6.w", func() { c08(r) })
	r.borrow([]string{"C10.R1:token-released"}, "C10.R1", "C12.R6", func() { c10(r) })
	// a parked flusher / reader released by a close gets the close error itself (not a re-wrapped text), and the closing state
	// is re-read before every wait
	r.borrow([]string{"C08.R2:waitFlush-return"}, "C08.R2", "C12.R7", func() { c08(r) })
	r.borrow([]string{"C07.R2:closing-reread-before-each-wait"}, "C07.R2", "C12.R7", func() { c07(r) })

	// ---- R3 enumerated panic sources ---------------------------------------------------------------
	nilGuardsFor(r, "C12.R3")
	{
		rel := w.MustFn("(*connection).Release")
		for _, site := range findIns(rel, func(i ssa.Instruction) bool { return isCall(i, ro.opDo) }) {
			r.guarded("C12.R3:release-skips-slot-when-closed", "Reader.Release on a closed connection does not touch the poller slot or walk the recycled buffer", rel, site, active, nil, "guarded by IsActive()")
		}
		for _, site := range findIns(rel, func(i ssa.Instruction) bool {
			m, ok := callOnField(i, "connection", "inputBuffer")
			return ok && (m == "calcMaxSize" || m == "resetTail")
		}) {
			r.guarded("C12.R3:release-walk-guarded:"+siteKey(w, site), "the node walk of the input buffer (nil chain after close) happens only on a live connection", rel, site, active, nil, "guarded by IsActive()")
		}
	}

	// ---- R4 EOF matches closed ---------------------------------------------------------------------
	{
		is := w.MustFn("(*exception).Is")
		eof, closed := w.ConstInt("ErrEOF"), w.ConstInt("ErrConnClosed")
		found := false
		// a branch  e.no == ErrEOF && target == ErrConnClosed  leading to return true
		isNoEOF := func(v ssa.Value) (bool, bool) {
			b, ok := v.(*ssa.BinOp)
			if !ok || b.Op != token.EQL {
				return false, false
			}
			if _, ok := loadOfField(b.X, "exception", "no"); ok && isConstEq(eof)(b.Y) {
				return true, true
			}
			return false, false
		}
		isTargetClosed := func(v ssa.Value) (bool, bool) {
			b, ok := v.(*ssa.BinOp)
			if !ok || b.Op != token.EQL {
				return false, false
			}
			y := b.Y
			if mi, ok := y.(*ssa.MakeInterface); ok {
				y = mi.X
			}
			if _, isParam := b.X.(*ssa.Parameter); isParam && isConstEq(closed)(y) {
				return true, true
			}
			return false, false
		}
		for _, e := range edgesEstablishing(is, isTargetClosed) {
			// from this edge (with no==ErrEOF assumed true) every return is true
			ss := &Search{Fn: is, Assume: func(v ssa.Value) (bool, bool) {
				if pol, ok := isNoEOF(v); ok {
					return pol, true
				}
				return false, false
			}}
			rets := ss.Reachable([]Start{e}, func(i ssa.Instruction) bool { _, ok := i.(*ssa.Return); return ok })
			all := len(rets) > 0
			for _, ret := range rets {
				if k, ok := constInt(ret.(*ssa.Return).Results[0]); !ok || k != 1 {
					all = false
				}
			}
			// and the edge is guarded by no == ErrEOF
			if all {
				pb := e.B.Preds[e.Pred]
				if r.guardedQuiet(is, pb.Instrs[len(pb.Instrs)-1], isNoEOF) {
					found = true
				}
			}
		}
		r.ob("C12.R4:eof-matches-closed", "(*exception).Is reports true for an ErrEOF exception matched against ErrConnClosed (reads after peer close match both)", is, nil, found, "no==ErrEOF && target==ErrConnClosed => true", true)
		// identity: e.no == target => true (errors.Is(err, ErrEOF) for an ErrEOF exception)
		{
			same := func(v ssa.Value) (bool, bool) {
				b, ok := v.(*ssa.BinOp)
				if !ok || b.Op != token.EQL {
					return false, false
				}
				x := b.X
				if mi, ok := x.(*ssa.MakeInterface); ok {
					x = mi.X
				}
				if _, isNo := loadOfField(x, "exception", "no"); isNo {
					if _, isParam := b.Y.(*ssa.Parameter); isParam {
						return true, true
					}
				}
				return false, false
			}
			st := edgesEstablishing(is, same)
			ss := &Search{Fn: is}
			okSame := len(st) > 0
			for _, ret := range ss.Reachable(st, func(i ssa.Instruction) bool { _, ok := i.(*ssa.Return); return ok }) {
				if k, ok := constInt(ret.(*ssa.Return).Results[0]); !ok || k != 1 {
					okSame = false
				}
			}
			r.ob("C12.R4:errno-matches-itself", "(*exception).Is reports true when the target is the exception's own errno (errors.Is(err, ErrEOF), errors.Is(err, ErrConnClosed), ...)", is, nil, okSame, "e.no == target => true", true)
		}
		r.ob("C12.R4:timeout-flag", "(*exception).Timeout covers the three timeout errnos", w.MustFn("(*exception).Timeout"), nil, timeoutCovers(w), "ErrDialTimeout, ErrReadTimeout, ErrWriteTimeout => true", true)
	}

	// ---- R5 Close idempotent ------------------------------------------------------------------------
	{
		oc := ro.onClose
		ss := &Search{Fn: oc}
		rets := ss.Reachable([]Start{Entry(oc)}, func(i ssa.Instruction) bool { _, ok := i.(*ssa.Return); return ok })
		ok := len(rets) > 0
		for _, ret := range rets {
			v := ret.(*ssa.Return).Results[0]
			if !(isNilConst(v) || isCallOf(ro.closeCallback)(v)) {
				ok = false
			}
		}
		r.ob("C12.R5:close-returns-nil", "Close() returns nil (or the runner's nil) on every path: repeated and concurrent Close calls are harmless", oc, nil, ok, "returns nil / closeCallback()", true)
		cc := ro.closeCallback
		ss2 := &Search{Fn: cc}
		rets = ss2.Reachable([]Start{Entry(cc)}, func(i ssa.Instruction) bool { _, ok := i.(*ssa.Return); return ok })
		ok = len(rets) > 0
		for _, ret := range rets {
			if !isNilConst(ret.(*ssa.Return).Results[0]) {
				ok = false
			}
		}
		r.ob("C12.R5:runner-returns-nil", "the callback runner returns nil on every path", cc, nil, ok, "returns nil", true)
		for _, name := range []string{"(*connection).Close", "(*connection).Detach"} {
			fn := w.MustFn(name)
			r.mustPass("C12.R5:close-goes-through-onClose:"+fn.Name(), "Close/Detach go through onClose (closeBy CAS + runner attempt)", fn, nil, []Start{Entry(fn)}, func(i ssa.Instruction) bool { return isCall(i, oc) }, nil, nil, "onClose() on every path")
		}
		// a repeated Close on a long-closed connection must not touch the poller slot again (it may belong to another
		// connection by now): the detach happens only after the processing lock was won, which a second Close never does
		r.borrow([]string{"C05.R12:detach-after-lock"}, "C05.R12", "C12.R5", func() { c05(r) })
	}
}

// mustPassRet: from the starts every path returns nil without blocking or reading the closing state.
func (r *Run) mustPassRet(_ *Run, key, rule string, fn *ssa.Function, starts []Start) {
	if len(starts) == 0 {
		r.ob(key, rule, fn, nil, false, "no fast-path edge (n <= Len()) reachable before the closing state is read", true)
		return
	}
	px := protoEffects(r.W)
	ss := &Search{Fn: fn}
	bad := ss.Find(starts, func(i ssa.Instruction) bool {
		if _, isDefer := i.(*ssa.Defer); isDefer {
			return false
		}
		return isBlockingOp(i) || px.May(i, "readClosing")
	}, false)
	r.Visited += ss.Visited
	if bad != nil {
		r.obW(key, rule, fn, nil, bad, "")
		return
	}
	rets := ss.Reachable(starts, func(i ssa.Instruction) bool { _, ok := i.(*ssa.Return); return ok })
	ok := len(rets) > 0
	for _, ret := range rets {
		if !lastResultAll(ret.(*ssa.Return), isNilConst) {
			ok = false
		}
	}
	r.ob(key, rule, fn, nil, ok, "returns nil directly", true)
}

func isErrorType(t types.Type) bool {
	n, ok := t.(*types.Named)
	return ok && n.Obj().Pkg() == nil && n.Obj().Name() == "error"
}

func timeoutCovers(w *World) bool {
	fn := w.MustFn("(*exception).Timeout")
	want := map[int64]bool{w.ConstInt("ErrDialTimeout"): false, w.ConstInt("ErrReadTimeout"): false, w.ConstInt("ErrWriteTimeout"): false}
	for _, b := range fn.Blocks {
		if len(b.Instrs) == 0 {
			continue
		}
		ifi, ok := b.Instrs[len(b.Instrs)-1].(*ssa.If)
		if !ok {
			continue
		}
		x, k, eq, ok := cmpConst(ifi.Cond)
		if !ok || !eq {
			continue
		}
		if _, isNo := loadOfField(x, "exception", "no"); !isNo {
			continue
		}
		if _, tracked := want[k]; !tracked {
			continue
		}
		// the true edge leads only to "return true"
		ss := &Search{Fn: fn}
		rets := ss.Reachable([]Start{OnEdge(ifi, true)}, func(i ssa.Instruction) bool { _, ok := i.(*ssa.Return); return ok })
		all := len(rets) > 0
		for _, ret := range rets {
			if v, ok := constInt(ret.(*ssa.Return).Results[0]); !ok || v != 1 {
				all = false
			}
		}
		if all {
			want[k] = true
		}
	}
	for _, v := range want {
		if !v {
			return false
		}
	}
	return true
}

// nilGuardsFor re-uses the nil-address rule under another property prefix.
func nilGuardsFor(r *Run, prefix string) {
	w := r.W
	for _, fn := range w.Funcs {
		for _, field := range []string{"remoteAddr", "localAddr"} {
			nonNil := fieldNonNilFact("netFD", field)
			for _, site := range findIns(fn, func(i ssa.Instruction) bool {
				if cc := callCommon(i); cc != nil && cc.IsInvoke() {
					_, ok := loadOfField(cc.Value, "netFD", field)
					return ok
				}
				if ta, ok := i.(*ssa.TypeAssert); ok && !ta.CommaOk {
					_, ok := loadOfField(ta.X, "netFD", field)
					return ok
				}
				return false
			}) {
				r.guarded(prefix+":nil-addr-guard:"+siteKey(w, site)+":"+field, "netFD."+field+" may be nil: a method call or assertion on it is guarded by a nil test (timeout paths return the error instead of panicking)", fn, site, nonNil, nil, "guarded by "+field+" != nil")
			}
		}
	}
}
