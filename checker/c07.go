package main

import (
	"fmt"
	"go/token"
	"go/types"
	"strings"

	"golang.org/x/tools/go/ssa"
)

func init() {
	register("C07",
		"Decides the structural premises of the blocked-reader wake-up protocol: the reader publishes waitReadSize and then re-reads the length before every blocking receive (reader side of the Dekker pair; the poller side is C06.R3); every receive on the read trigger is guarded by closing==none and the closed branches return ErrEOF (poller) / ErrConnClosed (user); onHup/onClose push a non-nil error on both triggers after a successful closeBy and before the callbacks; the trigger is a capacity-1 channel written by non-blocking sends; the reused timer is stopped-and-drained or consumed on every path; ErrReadTimeout is only returned right after observing Len()<n with no blocking in between; buffer operations of the Reader methods happen only when waitRead returned nil with the same n; methods are invoked on the optional address fields only under a nil guard. The read-timeout option reaches SetReadTimeout; the deadline/timeout setters record their argument on every path; the close paths push ErrEOF (peer) / ErrConnClosed (user) to a parked reader. Not decided: real-time bounds, timer expiry racing with delivery beyond these shapes.",
		[]string{"sync/atomic is linearizable", "Go channel and time.Timer semantics"},
		func(r *Run) {
			cfgs := []string{"linux"}
			if r.Tier == "thorough" {
				cfgs = []string{"linux", "linux-race", "darwin"}
			}
			for _, c := range cfgs {
				if r.useOpt(c) == nil {
					continue
				}
				c07(r)
			}
		})
}

func isLenReadIns(i ssa.Instruction) bool {
	c, ok := i.(*ssa.Call)
	return ok && (isLenCall(c) || isEmptyCall(c))
}

func c07(r *Run) {
	w := r.W
	for _, st := range [][2]string{{"SetDeadline", "readDeadline"}, {"SetReadDeadline", "readDeadline"}, {"SetReadTimeout", "readDeadline"}} {
		r.setterStores("C07.R4:setter-records:"+st[0], "the deadline / timeout setters record what they are given on every path (SetReadTimeout also clears a pending deadline): a blocked read can only time out at a deadline that was stored", "(*connection)."+st[0], st[1])
	}
	for _, st := range [][2]string{{"SetReadTimeout", "readTimeout"}, {"SetWriteTimeout", "writeTimeout"}} {
		setterAdmitsZero(r, "C07.R4:timeout-can-be-cleared:"+st[0], "(*connection)."+st[0], st[1])
	}
	r.optionPlumbed("C07.R4:read-timeout-option-applied", "the read timeout configured on the event loop (WithReadTimeout) is the value installed as the connection's read timeout", "WithReadTimeout", "(*connection).SetReadTimeout")
	ro := r.roles()
	px := protoEffects(w)
	_ = px
	waitRead := w.MustFn("(*connection).waitRead")
	waitReadT := w.MustFn("(*connection).waitReadWithTimeout")
	isStoreWRS := func(nonzero bool) func(ssa.Instruction) bool {
		return func(i ssa.Instruction) bool {
			if _, isCall := i.(*ssa.Call); !isCall {
				return false
			}
			a := asAtomic(i)
			if a == nil || a.Op != "Store" || structFieldOfAddr(a.Addr) != "connection.waitReadSize" {
				return false
			}
			k, isConst := constInt(a.Args[0])
			if nonzero {
				return !(isConst && k == 0)
			}
			return isConst && k == 0
		}
	}

	// ---- R1 publish-then-check ------------------------------------------------------------------
	for _, fn := range []*ssa.Function{waitRead, waitReadT} {
		stop, cut, n := recvMatchers(fn, ".readTrigger")
		if n == 0 {
			r.ob("C07.R1:blocks-on-trigger:"+fn.Name(), "the wait function blocks on the read trigger", fn, nil, false, "no receive on readTrigger", false)
			continue
		}
		// every receive (plain or select) is preceded by a Len() re-read after the publish
		recvs := findIns(fn, func(i ssa.Instruction) bool {
			if stop(i) {
				return true
			}
			if s, ok := i.(*ssa.Select); ok {
				for _, st := range s.States {
					if st.Dir == types.RecvOnly && strings.HasSuffix(pathOf(st.Chan), ".readTrigger") {
						return true
					}
				}
			}
			return false
		})
		_ = cut
		for i, rc := range recvs {
			key := fmt.Sprintf("%s#%d", fn.Name(), i+1)
			if fn == waitRead {
				r.precedes("C07.R1:publish-before-block:"+key, "the wanted size is published (Store waitReadSize) before the reader can block", fn, rc, isStoreWRS(true), nil, "Store(waitReadSize,n) dominates the receive")
			}
			// between the publish (function entry for the timeout variant, which is called after it) and
			// the receive, and between two receives, the length is re-read
			starts := []Start{Entry(fn)}
			for _, other := range recvs {
				starts = append(starts, After(other))
			}
			ss := &Search{Fn: fn, Stop: isLenReadIns}
			wit := ss.Find(starts, isIns(rc), false)
			r.Visited += ss.Visited
			r.obW("C07.R1:recheck-before-block:"+key, "before every blocking receive the reader re-reads the buffer length (after the publish / after the previous wake-up): data that arrived before the publish is not waited for", fn, rc, wit, "Len() on every path into the receive")
		}
	}
	// after a wake-up without error the length is re-read before the function can return: a stale or
	// early trigger never makes the reader return with fewer than n bytes
	for _, fn := range []*ssa.Function{waitRead, waitReadT} {
		stop, cut, _ := recvMatchers(fn, ".readTrigger")
		var starts []Start
		for _, rc := range findIns(fn, stop) {
			starts = append(starts, After(rc))
		}
		for _, b := range fn.Blocks {
			if len(b.Instrs) == 0 {
				continue
			}
			if ifi, ok := b.Instrs[len(b.Instrs)-1].(*ssa.If); ok {
				for _, br := range []bool{true, false} {
					if cut(ifi, ifi.Cond, br) {
						starts = append(starts, OnEdge(ifi, br))
					}
				}
			}
		}
		// the received value: plain receive result or the select's extracted value
		isTrigVal := func(v ssa.Value) bool {
			v = seeThroughCell(v)
			if u, ok := v.(*ssa.UnOp); ok && u.Op == token.ARROW && strings.HasSuffix(pathOf(u.X), ".readTrigger") {
				return true
			}
			if ex, ok := v.(*ssa.Extract); ok && ex.Index >= 2 {
				if sel, ok := ex.Tuple.(*ssa.Select); ok && ex.Index-2 < len(sel.States) {
					return strings.HasSuffix(pathOf(sel.States[ex.Index-2].Chan), ".readTrigger")
				}
			}
			return false
		}
		gotErr := cmpAtom(isTrigVal, isNilConst, neqRel)
		r.mustPass("C07.R1:recheck-after-wakeup:"+fn.Name(), "after being woken without an error the reader re-reads the buffer length before it can return (a wake-up alone - possibly stale, possibly for fewer bytes - never counts as 'n bytes are there')", fn, nil, starts,
			isLenReadIns, cutOn(gotErr), nil, "Len() on every path from a nil wake-up to a return")
	}
	// in waitRead the re-read comes after the publish: no path Store -> receive/timeout-variant without Len
	for _, st := range findIns(waitRead, isStoreWRS(true)) {
		stop, _, _ := recvMatchers(waitRead, ".readTrigger")
		ss := &Search{Fn: waitRead, Stop: isLenReadIns}
		wit := ss.Find([]Start{After(st)}, stop, false)
		r.Visited += ss.Visited
		r.obW("C07.R1:publish-then-recheck", "publish, then re-check: the Len() re-read that decides to block comes after the Store of waitReadSize", waitRead, st, wit, "no receive reachable from the Store without a Len() read")
	}
	// the timeout variant is entered only after the publish
	for _, site := range callSitesOf(w, waitReadT) {
		fn := site.Parent()
		r.precedes("C07.R1:timeout-variant-after-publish:"+siteKey(w, site), "waitReadWithTimeout is only called after waitReadSize was published", fn, site, isStoreWRS(true), nil, "Store(waitReadSize,n) dominates the call")
		r.ob("C07.R1:timeout-variant-caller:"+w.FnName(fn), "waitReadWithTimeout is called only from waitRead", fn, site, fn == waitRead, "caller "+w.FnName(fn), false)
	}
	// waitReadSize is reset on exit (deferred store 0) so a stale size does not suppress triggers forever... and is only written here
	{
		has := false
		forEachIns(waitRead, func(i ssa.Instruction) {
			if d, ok := i.(*ssa.Defer); ok {
				if a := asAtomic(d); a != nil && a.Op == "Store" && structFieldOfAddr(a.Addr) == "connection.waitReadSize" {
					if k, okc := constInt(a.Args[0]); okc && k == 0 {
						has = true
					}
				}
			}
		})
		r.ob("C07.R1:size-reset-on-exit", "waitRead resets waitReadSize to 0 when it returns (deferred)", waitRead, nil, has, "defer Store(waitReadSize,0)", false)
	}

	// the poller side of the pair: publish the new length, then read waitReadSize (C06.R3), and trigger when enough
	r.borrow([]string{"C06.R3:publish-before-waitsize"}, "C06.R3", "C07.R1", func() { c06(r) })
	{
		inputAck := w.MustFn("(*connection).inputAck")
		isWRS := func(v ssa.Value) bool {
			v = stripConv(v)
			c, ok := v.(*ssa.Call)
			if !ok {
				return false
			}
			a := asAtomic(c)
			return a != nil && a.Op == "Load" && structFieldOfAddr(a.Addr) == "connection.waitReadSize"
		}
		enough := cmpAtom(func(v ssa.Value) bool { _, c := v.(*ssa.Const); return !c && !isWRS(v) }, isWRS, func(op token.Token) (bool, bool) {
			switch op {
			case token.GEQ:
				return true, true
			case token.LSS:
				return false, true
			}
			return false, false
		})
		starts := edgesEstablishing(inputAck, enough)
		r.mustPass("C07.R1:poller-triggers-when-enough", "when the delivery made the buffered length reach the size a reader waits for, the poller sends the wake-up on every path", inputAck, nil, starts,
			func(i ssa.Instruction) bool { return isCall(i, ro.triggerRead) }, nil, nil, "triggerRead(nil) on every path from length >= waitReadSize")
	}

	// ---- R2 check-before-block and the error mapping ---------------------------------------------
	statusCall := isCallOf(ro.status, ro.kClosing)
	isNone := cmpAtom(statusCall, isConstEq(ro.whoNone), eqRel)
	notUser := cmpAtom(statusCall, isConstEq(ro.whoUser), neqRel)
	notPoller := cmpAtom(statusCall, isConstEq(ro.whoPoller), neqRel)
	for _, fn := range []*ssa.Function{waitRead, waitReadT} {
		recvs := findIns(fn, func(i ssa.Instruction) bool {
			if u, ok := i.(*ssa.UnOp); ok && u.Op == token.ARROW && strings.HasSuffix(pathOf(u.X), ".readTrigger") {
				return true
			}
			if s, ok := i.(*ssa.Select); ok && s.Blocking {
				for _, st := range s.States {
					if strings.HasSuffix(pathOf(st.Chan), ".readTrigger") {
						return true
					}
				}
			}
			return false
		})
		for i, rc := range recvs {
			key := fmt.Sprintf("%s#%d", fn.Name(), i+1)
			// guarded by (==none) or by (!=user and !=poller); the status must be re-read after the previous wake-up
			chk := func(a Atom) *Witness {
				ss := &Search{Fn: fn, CutEdge: cutOn(a)}
				starts := []Start{Entry(fn)}
				wit := ss.Find(starts, isIns(rc), false)
				r.Visited += ss.Visited
				return wit
			}
			w1 := chk(isNone)
			var wit *Witness
			if w1 != nil {
				wa, wb := chk(notUser), chk(notPoller)
				if wa != nil {
					wit = wa
				} else if wb != nil {
					wit = wb
				}
			}
			r.obW("C07.R2:block-only-when-open:"+key, "the reader blocks on the trigger only after observing closing==none (a connection that is already closed will never be triggered again)", fn, rc, wit, "guarded by status(closing)==none")
			// ... observed since the previous wake-up: the trigger has one slot, a stale nil left by an earlier delivery can
			// occupy it when the close error is pushed (and dropped) - only a fresh look at the closing state notices the close
			{
				px := protoEffects(w)
				ss := &Search{Fn: fn, Stop: func(i ssa.Instruction) bool { return px.May(i, "readClosing") }}
				var wit2 *Witness
				for _, prev := range recvs {
					if wt := ss.Find([]Start{After(prev)}, isIns(rc), false); wt != nil && wit2 == nil {
						wit2 = wt
					}
				}
				r.Visited += ss.Visited
				r.obW("C07.R2:closing-reread-before-each-wait:"+key, "between two waits on the read trigger the closing state is read again: the one-slot trigger may hold a stale nil when the close error is pushed (and then dropped), so after taking that nil the reader must look at the state, not wait for an announcement that will never come", fn, rc, wit2, "status(closing) is read on every path from one wait to the next")
			}
		}
	}
	errMappingRules(r, "C07.R2")

	closeWakeRules(r, "C07.R3")
	// trigger shape: non-blocking send on a capacity-1 channel
	for _, t := range []struct {
		fn    *ssa.Function
		field string
	}{{ro.triggerRead, "readTrigger"}, {ro.triggerWrite, "writeTrigger"}} {
		ok := false
		blocking := false
		forEachIns(t.fn, func(i ssa.Instruction) {
			switch x := i.(type) {
			case *ssa.Select:
				for _, st := range x.States {
					if st.Dir == types.SendOnly && strings.HasSuffix(pathOf(st.Chan), "."+t.field) && !x.Blocking {
						ok = true
					}
				}
				if x.Blocking {
					blocking = true
				}
			case *ssa.Send:
				blocking = true
			case *ssa.UnOp:
				if x.Op == token.ARROW {
					blocking = true
				}
			}
		})
		r.ob("C07.R3:trigger-nonblocking:"+t.fn.Name(), "the trigger is a non-blocking send (the poller and closers never block on a reader that is not waiting)", t.fn, nil, ok && !blocking, fmt.Sprintf("nonblocking send=%v other blocking op=%v", ok, blocking), true)
	}
	{
		initFn := w.MustFn("(*connection).init")
		for _, field := range []string{"readTrigger", "writeTrigger"} {
			ok := false
			forEachIns(initFn, func(i ssa.Instruction) {
				if st, isSt := i.(*ssa.Store); isSt && isStoreToField(i, "connection", field) {
					if mc, isMC := st.Val.(*ssa.MakeChan); isMC {
						if k, okc := constInt(mc.Size); okc && k == 1 {
							ok = true
						}
					}
				}
			})
			r.ob("C07.R3:trigger-capacity-1:"+field, "the trigger channel has capacity 1: a wake-up sent while nobody waits is kept, and never more than one", initFn, nil, ok, "make(chan error, 1)", false)
		}
	}

	// ---- R4 timer hygiene ------------------------------------------------------------------------
	timerHygiene(r, waitReadT, "readTimer", "C07")

	// ---- R5 timeout consumes nothing, and not when data is there ------------------------------
	{
		lenLess := lenLessFact()
		for _, fn := range []*ssa.Function{waitRead, waitReadT} {
			for i, site := range findIns(fn, w.isException("ErrReadTimeout")) {
				// starts: entry and after every blocking operation
				starts := []Start{Entry(fn)}
				for _, b := range findIns(fn, isBlockingOp) {
					starts = append(starts, After(b))
				}
				ss := &Search{Fn: fn, CutEdge: cutOn(lenLess)}
				wit := ss.Find(starts, isIns(site), false)
				r.Visited += ss.Visited
				r.obW(fmt.Sprintf("C07.R5:timeout-only-when-short:%s#%d", fn.Name(), i+1), "ErrReadTimeout is returned only right after observing Len() < n, with no blocking operation in between (never when the bytes were already buffered)", fn, site, wit, "guarded by Len()<n since the last blocking op")
			}
		}
		// Reader methods of the connection: buffer use only after waitRead(n)==nil with the same n
		waitOK := cmpAtom(isCallOf(waitRead), isNilConst, eqRel)
		nMethods := 0
		for _, name := range []string{"Next", "Peek", "Skip", "Slice", "ReadString", "ReadBinary", "ReadByte", "Read"} {
			fn := w.Fn("(*connection)." + name)
			if fn == nil {
				r.ob("C07.R5:reader-method:"+name, "the connection implements this Reader method", nil, nil, false, "method missing", false)
				continue
			}
			nMethods++
			for _, site := range findIns(fn, func(i ssa.Instruction) bool {
				m, ok := callOnField(i, "connection", "inputBuffer")
				return ok && m != "Len" && m != "IsEmpty"
			}) {
				r.guarded("C07.R5:consume-only-after-wait:"+siteKey(w, site), "the input buffer is consumed only when waitRead returned nil (a timeout or close consumes nothing)", fn, site, waitOK, nil, "guarded by waitRead(n)==nil")
				// same n: the buffer call's size argument is the value passed to waitRead
				if name != "ReadByte" && name != "Read" {
					var wr *ssa.Call
					forEachIns(fn, func(i ssa.Instruction) {
						if isCall(i, waitRead) {
							wr = i.(*ssa.Call)
						}
					})
					same := wr != nil && argVal(&wr.Call, 0) == argVal(callCommon(site), 0)
					r.ob("C07.R5:same-size:"+siteKey(w, site), "the size waited for is the size consumed", fn, site, same, "waitRead(n) and buffer op use the same value", true)
				}
			}
		}
	}

	// the closed answers too are given only when the wanted bytes are NOT there (bytes that arrived before the close stay readable)
	for _, fn := range []*ssa.Function{waitRead, waitReadT} {
		for _, en := range []string{"ErrEOF", "ErrConnClosed"} {
			for i, site := range findIns(fn, w.isException(en)) {
				starts := []Start{Entry(fn)}
				for _, b := range findIns(fn, isBlockingOp) {
					starts = append(starts, After(b))
				}
				ss := &Search{Fn: fn, CutEdge: cutOn(lenLessFact())}
				wit := ss.Find(starts, isIns(site), false)
				r.Visited += ss.Visited
				r.obW(fmt.Sprintf("C07.R5:closed-only-when-short:%s:%s#%d", fn.Name(), en, i+1), en+" is returned by the wait loop only right after observing Len() < n (never when the n bytes are already buffered: data sent before the close is delivered first)", fn, site, wit, "guarded by Len()<n since the last blocking op")
			}
		}
	}
	// an already expired deadline answers with the timeout error
	expiredRule(r, waitRead, "ErrReadTimeout", "C07.R5")

	// Until: "skip what was already scanned" - the offset handed to the next scan is a length read BEFORE the scan it follows;
	// read after it, bytes that arrive in between are skipped unscanned and a delimiter among them is never found
	{
		fn := w.MustFn("(*connection).Until")
		isWait := func(i ssa.Instruction) bool { return isCall(i, waitRead) }
		scans := findIns(fn, func(i ssa.Instruction) bool {
			m, ok := callOnField(i, "connection", "inputBuffer")
			return ok && m == "indexByte"
		})
		if len(scans) == 0 {
			r.absentf(" C07: Until does not scan the input buffer with indexByte")
		}
		for _, scan := range scans {
			args := callCommon(scan).Args
			skip := args[len(args)-1]
			for _, leaf := range phiLeaves(skip) {
				li, isIns := leaf.(ssa.Instruction)
				if !isIns {
					continue
				}
				if m, ok := callOnField(li, "connection", "inputBuffer"); !ok || m != "Len" {
					continue
				}
				ss := &Search{Fn: fn, Stop: isWait, NoInline: true}
				wit := ss.Find([]Start{After(scan)}, func(i ssa.Instruction) bool { return i == li }, false)
				r.Visited += ss.Visited
				r.obW("C07.R2:until-skips-only-scanned-bytes", "the length Until remembers as 'already scanned' is read before the scan it describes (between a scan and the next wait no new length is taken): bytes delivered while the scan runs are scanned next time, not skipped", fn, li, wit, "Len() is not reachable from indexByte() before the next waitRead()")
			}
		}
	}

	// ---- R6 no nil receiver on the address fields ---------------------------------------------
	nilGuards(r)
}

// timerHygiene: every path from the (re)arming of the reused timer to a return consumes the tick
// or stops the timer and drains it when Stop reports false.
func timerHygiene(r *Run, fn *ssa.Function, field, prop string) {
	w := r.W
	isArm := func(i ssa.Instruction) bool {
		c, ok := i.(*ssa.Call)
		if !ok {
			return false
		}
		f := c.Call.StaticCallee()
		if f == nil || f.Pkg == nil || f.Pkg.Pkg.Path() != "time" {
			return false
		}
		return f.Name() == "NewTimer" || (f.Name() == "Reset" && strings.HasSuffix(pathOf(c.Call.Args[0]), "."+field))
	}
	isStop := func(v ssa.Value) bool {
		c, ok := v.(*ssa.Call)
		if !ok {
			return false
		}
		f := c.Call.StaticCallee()
		return f != nil && f.Pkg != nil && f.Pkg.Pkg.Path() == "time" && f.Name() == "Stop" && strings.HasSuffix(pathOf(c.Call.Args[0]), "."+field)
	}
	arms := findIns(fn, isArm)
	if len(arms) == 0 {
		r.ob(prop+".R4:timer-armed:"+fn.Name(), "the function arms its reusable timer", fn, nil, false, "no NewTimer/Reset", false)
		return
	}
	// NewTimer and Reset arm the timer with one and the same duration value
	{
		var durs []ssa.Value
		for _, a := range arms {
			cc := callCommon(a)
			durs = append(durs, cc.Args[len(cc.Args)-1])
		}
		same := true
		for _, d := range durs {
			if d != durs[0] {
				same = false
			}
		}
		_, isConst := durs[0].(*ssa.Const)
		r.ob(prop+".R4:timer-armed-consistently:"+fn.Name(), "creating and re-arming the reused timer use the same (computed) duration: a later call does not run with another call's or another setting's timeout", fn, arms[0], same && !isConst, fmt.Sprintf("%d arming calls, same value=%v", len(arms), same), true)
	}
	recvStop, recvCut, _ := recvMatchers(fn, "."+field+".C")
	stopCall := func(i ssa.Instruction) bool { v, ok := i.(ssa.Value); return ok && isStop(v) }
	// (a) every path from arming to return passes a tick receive or a Stop()
	ss := &Search{Fn: fn, Stop: anyOf(recvStop, stopCall), CutEdge: recvCut}
	wit := ss.Find(startsAfter(arms), nil, true)
	r.Visited += ss.Visited
	r.obW(prop+".R4:timer-settled:"+fn.Name(), "every path from arming the reused timer to a return either consumed the tick or called Stop(): no armed timer is left behind for the next call", fn, nil, wit, "<-timer.C or Stop() on every path")
	// (a') the timer is (re)armed on every path before the function can block on it
	for i, b := range findIns(fn, func(i ssa.Instruction) bool {
		if s, ok := i.(*ssa.Select); ok && s.Blocking {
			for _, st := range s.States {
				if strings.HasSuffix(pathOf(st.Chan), "."+field+".C") {
					return true
				}
			}
		}
		return false
	}) {
		r.precedes(fmt.Sprintf("%s.R4:timer-armed-before-wait:%s#%d", prop, fn.Name(), i+1), "the reused timer is created or re-armed on every path before the function waits on it (a second timed call must not wait on a dead timer)", fn, b, isArm, nil, "NewTimer/Reset dominates the select")
	}
	// (b) Stop()==false is followed by a drain
	stopFalse := func(v ssa.Value) (bool, bool) {
		if isStop(v) {
			return false, true
		}
		return false, false
	}
	starts := edgesEstablishing(fn, stopFalse)
	if len(findIns(fn, stopCall)) > 0 {
		r.mustPass(prop+".R4:drain-after-failed-stop:"+fn.Name(), "when Stop() reports that the timer already fired, the tick is drained before returning (a stale tick cannot hit the next call)", fn, nil, starts, recvStop, recvCut, nil, "<-timer.C on every path from Stop()==false")
	}
	// (c) a path on which the tick was already consumed does not drain again (would block forever)
	var tickEdges []Start
	for _, b := range fn.Blocks {
		if len(b.Instrs) == 0 {
			continue
		}
		if ifi, ok := b.Instrs[len(b.Instrs)-1].(*ssa.If); ok {
			for _, br := range []bool{true, false} {
				if recvCut(ifi, ifi.Cond, br) {
					tickEdges = append(tickEdges, OnEdge(ifi, br))
				}
			}
		}
	}
	if len(tickEdges) > 0 {
		ss := &Search{Fn: fn, Stop: isArm}
		wit := ss.Find(tickEdges, recvStop, false)
		r.Visited += ss.Visited
		r.obW(prop+".R4:no-double-drain:"+fn.Name(), "after the select consumed the tick no path receives from the timer channel again without re-arming (it would block for ever)", fn, nil, wit, "no second <-timer.C")
	}
	// (d) when the tick was received the outcome is the timeout error (or success if the condition was met meanwhile)
	errName := map[string]string{"readTimer": "ErrReadTimeout", "writeTimer": "ErrWriteTimeout"}[field]
	if errName != "" && len(tickEdges) > 0 {
		ss := &Search{Fn: fn, Stop: w.isException(errName)}
		var wit *Witness
		for _, ret := range ss.Reachable(tickEdges, func(i ssa.Instruction) bool { _, ok := i.(*ssa.Return); return ok }) {
			// a return reached from the tick edge without constructing the timeout error must be a success/trigger return
			rr := ret.(*ssa.Return)
			okRet := lastResultAll(rr, func(v ssa.Value) bool {
				if isNilConst(v) {
					return true
				}
				if ex, isE := v.(*ssa.Extract); isE {
					_, isSel := ex.Tuple.(*ssa.Select)
					return isSel
				}
				return false
			})
			if !okRet {
				s2 := &Search{Fn: fn, Stop: w.isException(errName)}
				wit = s2.Find(tickEdges, isIns(ret), false)
			}
		}
		r.Visited += ss.Visited
		r.obW(prop+".R4:tick-means-timeout:"+fn.Name(), "once the timer's tick was received the call returns "+errName+" (or success / the trigger's value if that arrived meanwhile) - no other error", fn, nil, wit, errName+" on every failing path from the tick edge")
	}
	_ = w
}

// nilGuards: methods / non-comma-ok assertions on netFD.localAddr / remoteAddr only under a nil test.
func nilGuards(r *Run) {
	w := r.W
	n := 0
	for _, fn := range w.Funcs {
		for _, field := range []string{"remoteAddr", "localAddr"} {
			nonNil := fieldNonNilFact("netFD", field)
			sites := findIns(fn, func(i ssa.Instruction) bool {
				if cc := callCommon(i); cc != nil && cc.IsInvoke() {
					_, ok := loadOfField(cc.Value, "netFD", field)
					return ok
				}
				if ta, ok := i.(*ssa.TypeAssert); ok && !ta.CommaOk {
					_, ok := loadOfField(ta.X, "netFD", field)
					return ok
				}
				return false
			})
			for _, site := range sites {
				n++
				r.guarded("C07.R6:nil-addr-guard:"+siteKey(w, site)+":"+field, "netFD."+field+" is optional (NewFDConnection builds a netFD without it; sockaddrToAddr can return nil): a method call or assertion on it is guarded by a nil test", fn, site, nonNil, nil, "guarded by "+field+" != nil")
			}
		}
	}
	// premise re-derived: NewFDConnection still builds a netFD without addresses
	nfd := w.Fn("NewFDConnection")
	prem := false
	if nfd != nil {
		forEachIns(nfd, func(i ssa.Instruction) {
			if a, ok := i.(*ssa.Alloc); ok && namedTypeName(a.Type()) == "netFD" {
				setsRemote := false
				for _, ref := range *a.Referrers() {
					if fa, ok := ref.(*ssa.FieldAddr); ok {
						if _, f, _, _ := fieldOf(fa); f == "remoteAddr" {
							setsRemote = true
						}
					}
				}
				prem = !setsRemote
			}
		})
	}
	r.Notes = append(r.Notes, fmt.Sprintf("C07.R6 premise (NewFDConnection builds netFD without remoteAddr) = %v; %d guarded sites", prem, n))
	if n == 0 {
		r.ob("C07.R6:nil-addr-guard:sites", "address methods are used somewhere", nil, nil, false, "no site found: anchor lost", false)
	}
}

// errMappingRules: once the wait loops see the connection closed, the error returned says who closed it.
func errMappingRules(r *Run, prefix string) {
	w := r.W
	ro := r.roles()
	statusCall := isCallOf(ro.status, ro.kClosing)
	byPoller := cmpAtom(statusCall, isConstEq(ro.whoPoller), eqRel)
	byUser := cmpAtom(statusCall, isConstEq(ro.whoUser), eqRel)
	for _, fn := range []*ssa.Function{w.MustFn("(*connection).waitRead"), w.MustFn("(*connection).waitReadWithTimeout")} {
		// error mapping
		for _, m := range []struct {
			name string
			fact Atom
			want string
			bad  []string
		}{{"peer", byPoller, "ErrEOF", []string{"ErrConnClosed", "ErrReadTimeout"}}, {"user", byUser, "ErrConnClosed", []string{"ErrEOF", "ErrReadTimeout"}}} {
			starts := edgesEstablishing(fn, m.fact)
			r.mustPass(prefix+":closed-by-"+m.name+"-returns-"+m.want+":"+fn.Name(), "once the wait loop sees the connection closed by the "+m.name+" every path returns Exception("+m.want+") without blocking again", fn, nil, starts,
				w.isException(m.want), nil, nil, "Exception("+m.want+") on every path")
			stopR, cutR, _ := recvMatchers(fn, ".readTrigger")
			bad := []func(ssa.Instruction) bool{stopR, func(i ssa.Instruction) bool { s, ok := i.(*ssa.Select); return ok && s.Blocking }}
			for _, b := range m.bad {
				bad = append(bad, w.isException(b))
			}
			_ = cutR
			r.neverReach(prefix+":closed-by-"+m.name+"-no-other-outcome:"+fn.Name(), "the closed-by-"+m.name+" branch neither blocks again nor produces another error", fn, nil, starts,
				anyOf(bad...), nil, nil, nil, "no receive / other Exception reachable")
		}
	}
}

// expiredRule: on the edge "remaining time <= 0" (a time.Duration compared with 0) every path returns the timeout error.
func expiredRule(r *Run, fn *ssa.Function, errName, prefix string) {
	w := r.W
	expired := func(v ssa.Value) (bool, bool) {
		b, ok := v.(*ssa.BinOp)
		if !ok || !isConstEq(0)(b.Y) {
			return false, false
		}
		if n, isNamed := b.X.Type().(*types.Named); !isNamed || n.Obj().Name() != "Duration" {
			return false, false
		}
		if _, isField := b.X.(*ssa.UnOp); isField {
			return false, false // a configured timeout field, not a remaining time
		}
		if _, isPhi := b.X.(*ssa.Phi); isPhi {
			return false, false
		}
		switch b.Op {
		case token.LEQ, token.LSS:
			return true, true
		case token.GTR, token.GEQ:
			return false, true
		}
		return false, false
	}
	starts := edgesEstablishing(fn, expired)
	isTimeoutOrClosed := func(i ssa.Instruction) bool {
		return w.isException(errName)(i) || w.isException("ErrEOF")(i) || w.isException("ErrConnClosed")(i)
	}
	r.mustPass(prefix+":expired-deadline-returns-timeout:"+fn.Name(), "when the deadline has already passed the call returns "+errName+" (or the closed-state error of a closed connection) without waiting", fn, nil, starts, isTimeoutOrClosed, nil, nil, "Exception("+errName+") on every path from remaining<=0")
	if errName == "ErrReadTimeout" {
		// ... and on the read side the closed state wins: the timeout answer is given only after the closing state was looked at
		px := protoEffects(w)
		ss := &Search{Fn: fn, Stop: func(i ssa.Instruction) bool { return px.May(i, "readClosing") }}
		var wit *Witness
		for _, site := range ss.Reachable(starts, w.isException(errName)) {
			s2 := &Search{Fn: fn, Stop: func(i ssa.Instruction) bool { return px.May(i, "readClosing") }}
			if wt := s2.Find(starts, isIns(site), false); wt != nil && wit == nil {
				wit = wt
			}
			r.Visited += s2.Visited
		}
		r.Visited += ss.Visited
		r.obW(prefix+":expired-deadline-does-not-hide-close:"+fn.Name(), "with a read deadline that has already passed, a Reader call on a closed connection still gets the closed-state error: the timeout answer is given only after the closing state was read", fn, nil, wit, "status(closing) is read before "+errName+" is returned on the expired edge")
	}
}

// closeWakeRules: after a successful closeBy both triggers get a non-nil error, before the close callbacks and before
// any user callback (OnDisconnect) can run.
func closeWakeRules(r *Run, prefix string) {
	w := r.W
	ro := r.roles()
	px := protoEffects(w)
	// ---- R3 close wakes ----------------------------------------------------------------------------
	for _, c := range []struct {
		fn  *ssa.Function
		who int64
	}{{ro.onHup, ro.whoPoller}, {ro.onClose, ro.whoUser}} {
		starts := edgesEstablishing(c.fn, callResultAtom(ro.closeBy, true))
		for _, t := range []struct {
			name string
			fn   *ssa.Function
		}{{"read", ro.triggerRead}, {"write", ro.triggerWrite}} {
			isTrig := func(i ssa.Instruction) bool {
				if !isCall(i, t.fn) {
					return false
				}
				return !isNilConst(argVal(callCommon(i), 0))
			}
			// what the woken call returns is the close error: ErrConnClosed for a flusher; for a reader ErrEOF when the peer closed
			// (an error that also matches ErrConnClosed) and ErrConnClosed when the user did
			for _, tr := range findIns(c.fn, isTrig) {
				arg := argVal(callCommon(tr), 0)
				want := []string{"ErrConnClosed"}
				if t.name == "read" && c.who == ro.whoPoller {
					want = []string{"ErrEOF"}
				}
				okc := false
				got := "not an Exception(...) value"
				if ai, isI := arg.(ssa.Instruction); isI {
					if mi, isMI := ai.(*ssa.MakeInterface); isMI {
						if xi, ok2 := mi.X.(ssa.Instruction); ok2 {
							ai = xi
						}
					}
					if n, ok2 := exceptionErrno(w, ai); ok2 {
						got = fmt.Sprintf("errno %d", n)
						for _, wn := range want {
							if n == w.ConstInt(wn) {
								okc = true
							}
						}
					}
				}
				r.ob(prefix+":close-wake-error-"+t.name+":"+c.fn.Name(), "the error pushed to a parked "+t.name+" call by the close path is the close error ("+strings.Join(want, "/")+"): a Flush or read that was blocked when the connection closed reports that, not a timeout or another kind", c.fn, tr, okc, got, false)
			}
			r.mustPass(prefix+":close-wakes-"+t.name+":"+c.fn.Name(), "after a successful closeBy the closer pushes a non-nil error on the "+t.name+" trigger on every path (a blocked reader / flusher is woken)", c.fn, nil, starts, isTrig, nil, nil, "trigger"+t.name+"(err) on every path")
			// and before the callbacks recycle the buffers
			for _, cb := range findIns(c.fn, func(i ssa.Instruction) bool { return isCall(i, ro.closeCallback) }) {
				ss := &Search{Fn: c.fn, Stop: isTrig}
				wit := ss.Find(starts, isIns(cb), false)
				r.Visited += ss.Visited
				r.obW(prefix+":wake-before-callbacks-"+t.name+":"+siteKey(w, cb), "the wake-up precedes the close callbacks on the closing path", c.fn, cb, wit, "trigger before closeCallback")
			}
		}
	}

	// and before a user callback: a blocked reader / flusher is released even if OnDisconnect blocks or waits for it
	{
		starts := edgesEstablishing(ro.onHup, callResultAtom(ro.closeBy, true))
		for _, t := range []struct {
			name string
			fn   *ssa.Function
		}{{"read", ro.triggerRead}, {"write", ro.triggerWrite}} {
			isTrig := func(i ssa.Instruction) bool { return isCall(i, t.fn) && !isNilConst(argVal(callCommon(i), 0)) }
			ss := &Search{Fn: ro.onHup, Stop: isTrig}
			wit := ss.Find(starts, func(i ssa.Instruction) bool {
				_, isC := i.(*ssa.Call)
				return isC && px.May(i, "usercb")
			}, false)
			r.Visited += ss.Visited
			r.obW(prefix+":wake-before-user-callbacks-"+t.name, "on hang-up the "+t.name+" wake-up is sent before any user callback (OnDisconnect) can run: a parked Flush/read is released at once, not after user code returns", ro.onHup, nil, wit, "trigger"+t.name+" before onDisconnect()")
		}
	}
}
