package main

import (
	"fmt"
	"go/token"
	"go/types"
	"strings"

	"golang.org/x/tools/go/ssa"
)

func init() {
	register("C14",
		"Decides the structural premises of 'a dial ends in a connection or a clean error': every error exit taken after a descriptor was created closes it (sysSocket, socket, the self-connect retry loop), success transfers it; a failed registration closes the connection; the temporary poller slot allocated for connect is always paired with the deferred Free, the context branch of WaitWrite detaches, and onwrite detaches before signalling; context errors on the dial path are mapped through mapErr, whose deadline value has a Timeout() method that returns true; the write/close triggers of the poll descriptor are closed at most once. sysSocket returns only non-blocking descriptors; pollDesc.onhup only signals; after ctx.Done() WaitWrite returns an error on every path. Not decided: elapsed time, usability of the returned connection, the kernel's connect behaviour.",
		[]string{"syscall wrappers return err != nil exactly when no descriptor was produced"},
		func(r *Run) {
			cfgs := []string{"linux"}
			if r.Tier == "thorough" {
				cfgs = []string{"linux", "linux-race", "darwin", "freebsd"}
			}
			for _, c := range cfgs {
				if r.useOpt(c) == nil {
					continue
				}
				c14(r)
			}
		})
}

func isSysCall(name string) func(ssa.Instruction) bool {
	return func(i ssa.Instruction) bool {
		f := calleeOf(i)
		return f != nil && f.Pkg != nil && f.Pkg.Pkg.Path() == "syscall" && f.Name() == name
	}
}

// errResultNonNil: the i-th result of the tuple-returning call is a non-nil error on this edge.
func errOfCall(call ssa.Value, idx int) func(ssa.Value) bool {
	return func(v ssa.Value) bool {
		e, ok := v.(*ssa.Extract)
		return ok && e.Tuple == call && e.Index == idx
	}
}

func anyErrNonNil() Atom {
	isErr := func(v ssa.Value) bool { return isErrorType(v.Type()) }
	return cmpAtom(isErr, isNilConst, neqRel)
}

// errorExits: paths from starts to a return whose last result may be non-nil, avoiding `closes`.
func (r *Run) noLeakOnError(key, rule string, fn *ssa.Function, at ssa.Instruction, starts []Start, closes func(ssa.Instruction) bool, extraCut func(*ssa.If, ssa.Value, bool) bool) {
	if len(starts) == 0 {
		r.ob(key, rule, fn, at, false, "no success edge of the creating call found", true)
		return
	}
	ss := &Search{Fn: fn, Stop: closes, CutEdge: extraCut}
	var wit *Witness
	for _, ret := range ss.Reachable(starts, func(i ssa.Instruction) bool { _, ok := i.(*ssa.Return); return ok }) {
		rr := ret.(*ssa.Return)
		if len(rr.Results) == 0 {
			continue
		}
		errMayBeSet := false
		for _, v := range resultValues(rr, len(rr.Results)-1) {
			if !isNilConst(v) {
				errMayBeSet = true
			}
		}
		if errMayBeSet {
			s2 := &Search{Fn: fn, Stop: closes, CutEdge: extraCut}
			wit = s2.Find(starts, isIns(ret), false)
			r.Visited += s2.Visited
			if wit != nil {
				break
			}
		}
	}
	r.Visited += ss.Visited
	r.obW(key, rule, fn, at, wit, "every error exit passes a close")
}

func c14(r *Run) {
	w := r.W
	ro := r.roles()
	px := protoEffects(w)
	netClose := w.MustFn("(*netFD).Close")
	// a dial that ran into its deadline reports the error of the attempt that timed out (whose Timeout() is true), not an
	// earlier address's error; and no raw close was added on the dial path (census of C15)
	{
		fn := w.MustFn("(*dialer).dialTCP")
		dialTCPFn := w.MustFn("DialTCP")
		_, cutCtx, n := recvMatchersV(fn, func(ch ssa.Value) bool {
			c, ok := ch.(*ssa.Call)
			return ok && c.Call.IsInvoke() && c.Call.Method.Name() == "Done"
		})
		if n > 0 {
			var starts []Start
			for _, b := range fn.Blocks {
				if len(b.Instrs) == 0 {
					continue
				}
				if ifi, ok := b.Instrs[len(b.Instrs)-1].(*ssa.If); ok {
					for _, br := range []bool{true, false} {
						if cutCtx(ifi, ifi.Cond, br) {
							starts = append(starts, OnEdge(ifi, br))
						}
					}
				}
			}
			isAttemptErr := func(v ssa.Value) bool {
				e, ok := v.(*ssa.Extract)
				if !ok || e.Index != 1 {
					return false
				}
				c, ok := e.Tuple.(*ssa.Call)
				return ok && c.Call.StaticCallee() == dialTCPFn
			}
			ss := &Search{Fn: fn}
			okAll := len(starts) > 0
			var at ssa.Instruction
			// only the returns reached before the next attempt
			stopNext := func(i ssa.Instruction) bool { return isCall(i, dialTCPFn) }
			ss.Stop = stopNext
			for _, ret := range ss.Reachable(starts, func(i ssa.Instruction) bool { _, ok := i.(*ssa.Return); return ok }) {
				for _, v := range resultValues(ret.(*ssa.Return), 1) {
					vals := []ssa.Value{v}
					if ph, isPhi := v.(*ssa.Phi); isPhi {
						vals = ph.Edges
					}
					for _, x := range vals {
						if !isAttemptErr(x) {
							okAll, at = false, ret
						}
					}
				}
			}
			r.Visited += ss.Visited
			r.ob("C14.R3:deadline-returns-the-timed-out-attempts-error", "when the context has expired after a failed attempt, dialTCP returns that attempt's error (the one whose Timeout() is true), not the error remembered from an earlier address", fn, at, okAll, "the value returned on the ctx.Done() branch is DialTCP's error", true)
		}
	}
	if r.keep == nil {
		r.borrow([]string{"C15.R1:close-site"}, "C15.R1", "C14.R1", func() { c15(r) })
	}
	// a success of one address attempt ends the dial with (connection, nil): the error remembered from an earlier address does not
	// ride along with an established connection
	{
		fn := w.MustFn("(*dialer).dialTCP")
		dialTCPFn := w.MustFn("DialTCP")
		okEdge := cmpAtom(func(v ssa.Value) bool {
			for _, x := range phiLeaves(v) {
				e, ok := x.(*ssa.Extract)
				if !ok || e.Index != 1 {
					return false
				}
				c, ok := e.Tuple.(*ssa.Call)
				if !ok || c.Call.StaticCallee() != dialTCPFn {
					return false
				}
			}
			return true
		}, isNilConst, eqRel)
		starts := edgesEstablishing(fn, okEdge)
		ss := &Search{Fn: fn, Stop: func(i ssa.Instruction) bool { return isCall(i, dialTCPFn) }}
		okAll := len(starts) > 0
		var at ssa.Instruction
		for _, ret := range ss.Reachable(starts, func(i ssa.Instruction) bool { _, ok := i.(*ssa.Return); return ok }) {
			if !lastResultAll(ret.(*ssa.Return), isNilConst) {
				okAll, at = false, ret
			}
		}
		r.Visited += ss.Visited
		r.ob("C14.R4:success-returns-nil-error", "when an address attempt succeeded dialTCP returns that connection with a nil error (never an established, registered connection together with an earlier attempt's error)", fn, at, okAll, "every return reached from DialTCP's err == nil edge has a nil error", true)
	}
	// the slot used for the connect is registered on the poller whose cache it was allocated from (it is freed into the cache of
	// the poller it is bound to)
	for _, name := range []string{"newPollDesc", "(*connection).initFDOperator"} {
		fn := w.MustFn(name)
		var allocRecv, bound ssa.Value
		forEachIns(fn, func(i ssa.Instruction) {
			if cc := callCommon(i); cc != nil && cc.IsInvoke() && cc.Method.Name() == "Alloc" {
				allocRecv = cc.Value
			}
			if st, ok := i.(*ssa.Store); ok && isStoreToField(i, "FDOperator", "poll") {
				bound = st.Val
			}
		})
		if bound == nil {
			continue // the binding is done by Alloc itself
		}
		r.ob("C14.R2:slot-bound-to-its-allocator:"+fn.Name(), "the poller a slot is bound to (operator.poll) is the poller whose cache allocated it: Free() returns the slot to operator.poll's cache, a slot from another poller's cache corrupts both free lists", fn, nil, allocRecv != nil && allocRecv == bound, "poll.Alloc() and op.poll = poll use the same value", true)
	}
	// the finalizer (which releases descriptor, slot and buffers) is registered before anything in init can fail and close
	{
		fn := w.MustFn("(*connection).init")
		initFin := w.MustFn("(*connection).initFinalizer")
		prep := w.MustFn("(*connection).onPrepare")
		for _, site := range findIns(fn, func(i ssa.Instruction) bool { return isCall(i, prep) }) {
			r.precedes("C14.R1:finalizer-registered-before-prepare", "connection.init registers the finalizer before it runs onPrepare/register: a registration that fails closes the connection, and only the finalizer gives the descriptor and the slot back", fn, site, func(i ssa.Instruction) bool { return isCall(i, initFin) }, nil, "initFinalizer() dominates onPrepare()")
		}
	}
	isOwnerClose := func(i ssa.Instruction) bool {
		if isSysCall("Close")(i) {
			return true
		}
		if isCall(i, netClose) {
			return true
		}
		f := calleeOf(i)
		return f != nil && f.Name() == "Close" && f.Signature.Recv() != nil && isModulePkg(f.Pkg.Pkg) // (*connection).Close etc.
	}

	// ---- R1 no descriptor leak ---------------------------------------------------------------------
	{
		fn := w.MustFn("sysSocket")
		socks := findIns(fn, isSysCall("Socket"))
		if len(socks) != 1 {
			r.absentf(" C14: %d syscall.Socket calls in sysSocket", len(socks))
		}
		created := cmpAtom(errOfCall(socks[0].(ssa.Value), 1), isNilConst, eqRel)
		r.noLeakOnError("C14.R1:sysSocket", "after syscall.Socket succeeded every error return of sysSocket closes the new descriptor", fn, socks[0], edgesEstablishing(fn, created), isSysCall("Close"), nil)
	}
	{
		fn := w.MustFn("socket")
		ss := findIns(fn, func(i ssa.Instruction) bool { return isCall(i, w.MustFn("sysSocket")) })
		if len(ss) != 1 {
			r.absentf(" C14: %d sysSocket calls in socket()", len(ss))
		}
		created := cmpAtom(errOfCall(ss[0].(ssa.Value), 1), isNilConst, eqRel)
		r.noLeakOnError("C14.R1:socket", "after sysSocket succeeded every error return of socket() closes the descriptor (raw, or through the netFD that adopted it)", fn, ss[0], edgesEstablishing(fn, created), isOwnerClose, nil)
		// the raw close and the netFD close are not both on one path (double close)
		for _, c1 := range findIns(fn, isSysCall("Close")) {
			r.neverReach("C14.R1:socket-no-double-close", "an error path of socket() closes the descriptor once (not raw and through the netFD)", fn, c1, []Start{After(c1)}, isOwnerClose, nil, nil, nil, "no second close reachable")
		}
	}
	{
		fn := w.MustFn("(*sysDialer).dialTCP")
		is := findIns(fn, func(i ssa.Instruction) bool { return isCall(i, w.MustFn("internetSocket")) })
		if len(is) < 2 {
			r.absentf(" C14: %d internetSocket calls in dialTCP", len(is))
		}
		failed := anyErrNonNil()
		for i, c := range is {
			ss := &Search{Fn: fn, Stop: isOwnerClose, CutEdge: cutOn(failed)}
			wit := ss.Find([]Start{After(c)}, func(x ssa.Instruction) bool { return isCall(x, w.MustFn("internetSocket")) }, false)
			r.Visited += ss.Visited
			r.obW(fmt.Sprintf("C14.R1:retry-closes-previous#%d", i+1), "the self-connect / EADDRNOTAVAIL retry closes the previous (successful) socket before dialling again", fn, c, wit, "conn.Close() or err!=nil on every path to the next internetSocket")
		}
	}
	{
		// a failed registration closes the connection (and with it the descriptor)
		fn := w.MustFn("(*connection).register")
		ctl := findIns(fn, func(i ssa.Instruction) bool { return ro.isControl(i, ro.evReadable) })
		if len(ctl) != 1 {
			r.absentf(" C14: register() has %d Control(PollReadable)", len(ctl))
		}
		failed := cmpAtom(func(v ssa.Value) bool { return v == ctl[0].(ssa.Value) }, isNilConst, neqRel)
		r.mustPass("C14.R1:failed-register-closes", "when the poller refuses the registration the connection is closed (descriptor, slot and buffers are given back) and an error is returned", fn, ctl[0], edgesEstablishing(fn, failed),
			func(i ssa.Instruction) bool {
				return isCall(i, w.MustFn("(*connection).Close")) || isCall(i, ro.onClose)
			}, nil, nil, "Close() on every path from the error edge")
		for _, name := range []string{"newTCPConnection", "newUnixConnection"} {
			f := w.MustFn(name)
			// error => nil connection
			ok := true
			for _, ins := range allIns(f) {
				if ret, isRet := ins.(*ssa.Return); isRet {
					e := ret.Results[1]
					c := ret.Results[0]
					if isNilConst(e) == isNilConst(c) {
						ok = false
					}
				}
			}
			r.ob("C14.R4:result-shape:"+name, "the constructor returns a connection or an error, never both and never neither", f, nil, ok, "return (conn, nil) | (nil, err)", true)
		}
	}

	// the retry loop is bounded: its counter advances on every iteration
	{
		fn := w.MustFn("(*sysDialer).dialTCP")
		found, ok := false, true
		for _, b := range fn.Blocks {
			for _, ins := range b.Instrs {
				phi, isPhi := ins.(*ssa.Phi)
				if !isPhi {
					continue
				}
				// a loop counter: an integer phi compared with a constant
				isCounter := false
				for _, ref := range *phi.Referrers() {
					if bo, isB := ref.(*ssa.BinOp); isB {
						switch bo.Op {
						case token.LSS, token.LEQ, token.GTR, token.GEQ, token.NEQ:
							if _, okc := constInt(bo.Y); okc && bo.X == ssa.Value(phi) {
								isCounter = true
							}
						}
					}
				}
				if !isCounter {
					continue
				}
				hasBack := false
				for pi := range phi.Edges {
					if b.Dominates(b.Preds[pi]) {
						hasBack = true
					}
				}
				if !hasBack {
					continue
				}
				found = true
				for pi, e := range phi.Edges {
					if !b.Dominates(b.Preds[pi]) {
						continue // entry edge
					}
					step, isB := e.(*ssa.BinOp)
					if !isB || (step.Op != token.ADD && step.Op != token.SUB) || step.X != ssa.Value(phi) {
						ok = false
						continue
					}
					if k, okc := constInt(step.Y); !okc || k == 0 {
						ok = false
					}
				}
			}
		}
		detail := "no counted loop in dialTCP (nothing to check)"
		if found {
			detail = fmt.Sprintf("counted retry loop, counter advanced on every back edge=%v", ok)
		}
		r.ob("C14.R1:retry-bounded", "where the self-connect / EADDRNOTAVAIL retry is a counted loop, its counter advances on every iteration (a persistent EADDRNOTAVAIL cannot make the dial spin past its timeout)", fn, nil, !found || ok, detail, true)
	}
	// a connection that was established is handed to the caller or closed - never dropped
	for _, c := range []struct{ fn, callee string }{
		{"(*dialer).dialTCP", "DialTCP"}, {"DialTCP", "(*sysDialer).dialTCP"}, {"DialUnix", "(*sysDialer).dialUnix"},
		{"(*sysDialer).dialUnix", "unixSocket"},
	} {
		fn, callee := w.MustFn(c.fn), w.MustFn(c.callee)
		calls := findIns(fn, func(i ssa.Instruction) bool { return isCall(i, callee) })
		if len(calls) == 0 {
			r.ob("C14.R4:established-is-returned:"+c.fn, "the dial path goes through "+c.callee, fn, nil, false, "call missing", false)
			continue
		}
		for i, call := range calls {
			ss := &Search{Fn: fn, Stop: isOwnerClose, CutEdge: cutOn(anyErrNonNil())}
			var wit *Witness
			for _, ret := range ss.Reachable([]Start{After(call)}, func(x ssa.Instruction) bool { _, ok := x.(*ssa.Return); return ok }) {
				dropped := false
				for _, v := range resultValues(ret.(*ssa.Return), 0) {
					if isNilConst(v) {
						dropped = true
					}
				}
				if dropped {
					s2 := &Search{Fn: fn, Stop: isOwnerClose, CutEdge: cutOn(anyErrNonNil())}
					wit = s2.Find([]Start{After(call)}, isIns(ret), false)
					r.Visited += s2.Visited
				}
			}
			r.Visited += ss.Visited
			r.obW(fmt.Sprintf("C14.R4:established-is-returned:%s#%d", c.fn, i+1), "once "+c.callee+" has succeeded (no error observed) every return hands the connection to the caller, or it was closed first: an established connection (descriptor, poller slot, registration) is never dropped on the floor", fn, call, wit, "no return of a nil connection reachable without err != nil or Close()")
		}
	}

	// ---- R2 no registration leak ----------------------------------------------------------------------
	{
		fn := w.MustFn("(*netFD).connect")
		npd := w.MustFn("newPollDesc")
		allocs := findIns(fn, func(i ssa.Instruction) bool { return isCall(i, npd) })
		if len(allocs) != 1 {
			r.absentf(" C14: %d newPollDesc calls in connect", len(allocs))
		}
		isDeferFree := func(i ssa.Instruction) bool {
			d, ok := i.(*ssa.Defer)
			if !ok {
				return false
			}
			if f := makeClosureFn(d.Call.Value); f != nil {
				return px.FnMust(f, "op.free")
			}
			return d.Call.StaticCallee() == ro.opFree
		}
		r.mustPass("C14.R2:slot-freed", "the temporary poller slot allocated for connect is always given back (deferred Free registered right after the allocation)", fn, allocs[0], []Start{After(allocs[0])}, isDeferFree, nil, nil, "defer { operator.Free() } on every path")
		// nothing that can return or panic sits between allocation and defer
		ss := &Search{Fn: fn, Stop: isDeferFree}
		wit := ss.Find([]Start{After(allocs[0])}, func(i ssa.Instruction) bool {
			_, isCall := i.(*ssa.Call)
			return isCall
		}, false)
		r.Visited += ss.Visited
		r.obW("C14.R2:defer-immediately", "no call sits between the slot allocation and the deferred Free", fn, allocs[0], wit, "defer follows newPollDesc directly")
	}
	{
		fn := w.MustFn("(*pollDesc).WaitWrite")
		_, cutCtx, n := recvMatchersV(fn, func(ch ssa.Value) bool {
			c, ok := ch.(*ssa.Call)
			return ok && c.Call.IsInvoke() && c.Call.Method.Name() == "Done"
		})
		var starts []Start
		for _, b := range fn.Blocks {
			if len(b.Instrs) == 0 {
				continue
			}
			if ifi, ok := b.Instrs[len(b.Instrs)-1].(*ssa.If); ok {
				for _, br := range []bool{true, false} {
					if cutCtx(ifi, ifi.Cond, br) {
						starts = append(starts, OnEdge(ifi, br))
					}
				}
			}
		}
		if n == 0 {
			r.ob("C14.R2:ctx-branch-detaches", "WaitWrite watches the context", fn, nil, false, "no ctx.Done() case", false)
		} else {
			detaches := func(i ssa.Instruction) bool {
				_, isC := i.(*ssa.Call)
				return isC && px.Must(i, lbl("ctl", ro.evDetach))
			}
			r.mustPass("C14.R2:ctx-branch-detaches", "when the context expires WaitWrite deregisters the descriptor before returning (the caller closes the fd; a registered slot must not outlive it)", fn, nil, starts, detaches, nil, nil, "Control(PollDetach) on every path from the ctx.Done() case")
			// ... and the wait that ended by the context ends the dial: no nil return is reachable from that case (connect()
			// treats nil as "writable, look at SO_ERROR" and would keep waiting past its timeout)
			{
				ss := &Search{Fn: fn}
				var bad ssa.Instruction
				for _, ret := range ss.Reachable(starts, func(i ssa.Instruction) bool { _, ok := i.(*ssa.Return); return ok }) {
					if lastResultAll(ret.(*ssa.Return), isNilConst) {
						bad = ret
					}
				}
				r.Visited += ss.Visited
				r.ob("C14.R2:ctx-branch-returns-error", "once the context has expired WaitWrite returns an error on every path: a nil return means 'writable' to connect(), which would go on polling SO_ERROR and waiting - the dial would not end at its timeout", fn, bad, bad == nil, "no nil return reachable from the ctx.Done() case", true)
			}
			mapErr := w.MustFn("mapErr")
			r.mustPass("C14.R3:ctx-error-mapped:WaitWrite", "the context error is mapped to the net-style error (deadline => timeout error)", fn, nil, starts, func(i ssa.Instruction) bool { return isCall(i, mapErr) }, nil, nil, "mapErr on every path")
		}
		// the hang-up callback runs later, on the hup goroutine, when the poller has long released the slot (and a timed-out
		// dial may have freed it): it only signals, it never touches the slot
		{
			onhup := w.MustFn("(*pollDesc).onhup")
			opCtl := w.MustFn("(*FDOperator).Control")
			reach := map[*ssa.Function]bool{opCtl: true}
			for changed := true; changed; {
				changed = false
				for _, f := range w.Funcs {
					if reach[f] {
						continue
					}
					forEachIns(f, func(i ssa.Instruction) {
						if c := calleeOf(i); c != nil && reach[c] && !reach[f] {
							reach[f] = true
							changed = true
						}
					})
				}
			}
			var bad ssa.Instruction
			forEachIns(onhup, func(i ssa.Instruction) {
				if c := calleeOf(i); c != nil && reach[c] {
					bad = i
				}
			})
			r.ob("C14.R2:onhup-only-signals", "the dial's hang-up callback (queued by the poller and run after the batch, when the slot's token is long released and the slot may already be freed and re-used) never calls FDOperator.Control: the poller detached the descriptor itself", onhup, bad, bad == nil, "no Control reachable from pollDesc.onhup", true)
		}
		{
			ssk := w.MustFn("sysSocket")
			isNonblock := func(i ssa.Instruction) bool {
				c := calleeOf(i)
				if c == nil || c.Name() != "SetNonblock" || c.Pkg == nil || c.Pkg.Pkg.Path() != "syscall" {
					return false
				}
				k, ok := constInt(callCommon(i).Args[1])
				return ok && k == 1
			}
			var wit *Witness
			var at ssa.Instruction
			forEachIns(ssk, func(i ssa.Instruction) {
				ret, ok := i.(*ssa.Return)
				if !ok || !lastResultAll(ret, isNilConst) || wit != nil {
					return
				}
				ss := &Search{Fn: ssk, Stop: isNonblock}
				if wt := ss.Find([]Start{Entry(ssk)}, isIns(i), false); wt != nil {
					wit, at = wt, i
				}
				r.Visited += ss.Visited
			})
			r.obW("C14.R1:sysSocket-nonblocking", "every descriptor sysSocket returns was made non-blocking first, whatever its family: connect(2) on a blocking socket (a unix socket with a full backlog, ...) blocks inside the system call and ignores the dial's timeout", ssk, at, wit, "SetNonblock(s, true) on every success path")
		}
		// registration happens only when the slot is unused, and its error is returned
		for _, c := range findIns(fn, func(i ssa.Instruction) bool { return ro.isControl(i, ro.evWritable) }) {
			r.guarded("C14.R2:register-once", "the temporary slot is registered only while unused (the retry loop calls WaitWrite repeatedly)", fn, c, callResultAtom(ro.opIsUnused, true), nil, "guarded by isUnused()")
		}
		// onwrite: detach before signalling; triggers closed at most once
		onw := w.MustFn("(*pollDesc).onwrite")
		for _, cl := range findIns(onw, func(i ssa.Instruction) bool { return isBuiltinClose(i) }) {
			r.precedes("C14.R2:onwrite-detaches-first", "the poller callback deregisters the (edge-triggered) slot before it wakes the dialer, which frees the slot", onw, cl, func(i ssa.Instruction) bool {
				_, isC := i.(*ssa.Call)
				return isC && px.Must(i, lbl("ctl", ro.evDetach))
			}, nil, "detach dominates close(writeTrigger)")
		}
		for _, f := range []*ssa.Function{onw, w.MustFn("(*pollDesc).onhup")} {
			for _, cl := range findIns(f, isBuiltinClose) {
				// guarded by the non-blocking receive saying "not yet closed" (select default)
				notClosed := func(v ssa.Value) (bool, bool) {
					x, k, eq, ok := cmpConst(v)
					if !ok {
						return false, false
					}
					ex, ok := x.(*ssa.Extract)
					if !ok || ex.Index != 0 {
						return false, false
					}
					if sel, ok := ex.Tuple.(*ssa.Select); ok && !sel.Blocking && k == 0 {
						return !eq, true
					}
					return false, false
				}
				r.guarded("C14.R2:trigger-closed-once:"+f.Name(), "the trigger channel is closed only when it is not closed yet (a second event must not panic)", f, cl, notClosed, nil, "guarded by the default case of the non-blocking receive")
			}
		}
	}

	// ---- R3 timeout errors say so ------------------------------------------------------------------------
	{
		mapErr := w.MustFn("mapErr")
		isDeadline := func(v ssa.Value) (bool, bool) {
			b, ok := v.(*ssa.BinOp)
			if !ok || b.Op != token.EQL {
				return false, false
			}
			for _, side := range []ssa.Value{b.X, b.Y} {
				if u, ok := side.(*ssa.UnOp); ok && u.Op == token.MUL {
					if g, ok := u.X.(*ssa.Global); ok && g.Pkg.Pkg.Path() == "context" && g.Name() == "DeadlineExceeded" {
						return true, true
					}
				}
			}
			return false, false
		}
		starts := edgesEstablishing(mapErr, isDeadline)
		ss := &Search{Fn: mapErr}
		rets := ss.Reachable(starts, func(i ssa.Instruction) bool { _, ok := i.(*ssa.Return); return ok })
		ok := len(rets) > 0
		detail := "no return on the DeadlineExceeded branch"
		for _, ret := range rets {
			for _, v := range resultValues(ret.(*ssa.Return), 0) {
				o, d := timeoutCapable(w, v, 0)
				detail = d
				if !o {
					ok = false
				}
			}
		}
		r.ob("C14.R3:dial-timeout-error-has-Timeout", "the error a timed-out dial returns (context.DeadlineExceeded mapped by mapErr, wrapped in *net.OpError which forwards Timeout()) has a Timeout() method that can return true", mapErr, nil, ok, detail, true)
		// every ctx.Err() on the dial path goes through mapErr
		for _, name := range []string{"(*netFD).connect", "(*pollDesc).WaitWrite", "(*netFD).dial"} {
			fn := w.MustFn(name)
			for _, c := range findIns(fn, func(i ssa.Instruction) bool {
				cc := callCommon(i)
				return cc != nil && cc.IsInvoke() && cc.Method.Name() == "Err" && namedTypeName(cc.Value.Type()) == "Context"
			}) {
				ok := true
				for _, ref := range *c.(ssa.Value).Referrers() {
					if !isCall(ref, mapErr) {
						ok = false
					}
				}
				r.ob("C14.R3:ctx-error-mapped:"+siteKey(w, c), "ctx.Err() never escapes the dial path unmapped", fn, c, ok, "only used as mapErr's argument", true)
			}
		}
	}
	_ = strings.HasPrefix
}

func isBuiltinClose(i ssa.Instruction) bool {
	c, ok := i.(*ssa.Call)
	if !ok {
		return false
	}
	b, ok := c.Call.Value.(*ssa.Builtin)
	return ok && b.Name() == "close"
}

// resultDynType: for a constructor like errors.New the dynamic type is not visible from export
// data; report the static result type (an interface => no Timeout method is known).
func resultDynType(f *ssa.Function) types.Type {
	if f.Signature.Results().Len() == 1 {
		return f.Signature.Results().At(0).Type()
	}
	return nil
}

// timeoutCapable: the error value has a dynamic type whose Timeout() method can return true.
func timeoutCapable(w *World, v ssa.Value, depth int) (bool, string) {
	if depth > 6 {
		return false, "too deep"
	}
	switch x := v.(type) {
	case *ssa.Phi:
		for _, e := range x.Edges {
			if ok, d := timeoutCapable(w, e, depth+1); !ok {
				return false, d
			}
		}
		return true, "all alternatives report Timeout()"
	case *ssa.ChangeInterface:
		return timeoutCapable(w, x.X, depth+1)
	case *ssa.UnOp:
		if x.Op != token.MUL {
			break
		}
		g, ok := x.X.(*ssa.Global)
		if !ok {
			break
		}
		if !isModulePkg(g.Pkg.Pkg) {
			switch g.Pkg.Pkg.Path() + "." + g.Name() {
			case "os.ErrDeadlineExceeded", "context.DeadlineExceeded":
				return true, "standard deadline error " + g.Pkg.Pkg.Path() + "." + g.Name() + " (Timeout() == true)"
			}
			return false, "external value " + g.Pkg.Pkg.Path() + "." + g.Name() + " is not known to report Timeout()"
		}
		initFn := g.Pkg.Func("init")
		var res *bool
		detail := "global " + g.Name() + " has no initialiser"
		forEachIns(initFn, func(i ssa.Instruction) {
			if st, ok := i.(*ssa.Store); ok && st.Addr == ssa.Value(g) {
				o, d := timeoutCapable(w, st.Val, depth+1)
				res, detail = &o, g.Name()+" = "+d
			}
		})
		if res != nil {
			return *res, detail
		}
		return false, detail
	case *ssa.MakeInterface:
		t := x.X.Type()
		ms := w.Prog.MethodSets.MethodSet(t)
		for i := 0; i < ms.Len(); i++ {
			m := ms.At(i)
			if m.Obj().Name() != "Timeout" {
				continue
			}
			f := w.Prog.MethodValue(m)
			if f == nil || f.Blocks == nil {
				return true, "dynamic type " + t.String() + " has Timeout() (body not in the module)"
			}
			// errno constants converted to our exception / syscall.Errno
			canTrue := false
			forEachIns(f, func(i ssa.Instruction) {
				if ret, isRet := i.(*ssa.Return); isRet && len(ret.Results) == 1 {
					if k, okc := constInt(ret.Results[0]); !okc || k == 1 {
						canTrue = true
					}
				}
			})
			return canTrue, "dynamic type " + t.String() + ", Timeout() can return true = " + boolStr(canTrue)
		}
		return false, "dynamic type " + t.String() + " has no Timeout() method"
	case *ssa.Call:
		if n, ok := exceptionErrno(w, x); ok {
			for _, name := range []string{"ErrDialTimeout", "ErrReadTimeout", "ErrWriteTimeout"} {
				if n == w.ConstInt(name) {
					return true, "Exception(" + name + ")"
				}
			}
			return false, "Exception of a non-timeout errno"
		}
		if c := x.Call.StaticCallee(); c != nil {
			return false, "result of " + c.String() + " (no Timeout() known)"
		}
	}
	return false, "value " + stablePath(v) + " of unknown dynamic type"
}

func boolStr(b bool) string {
	if b {
		return "true"
	}
	return "false"
}
