package main

import (
	"fmt"
	"os"
	"os/exec"
	"path/filepath"
	"sort"
	"strings"
)

// selfTest (thorough tier, information only): every hand-written mutant and every confirmed
// sub-agent mutant filed under this property is applied to a scratch copy of the repository's
// current working tree and the property's quick check is run on it in a sub-process. The kill
// matrix goes into the evidence file; it never changes the verdict or the exit code (the harness
// may have edited /repo, in which case a patch legitimately fails to apply).
type selfTestResult struct {
	Patch   string   `json:"patch"`
	Outcome string   `json:"outcome"` // killed | missed | broken | not-applicable
	Keys    []string `json:"violated_keys,omitempty"`
}

func (r *Run) selfTest() []selfTestResult {
	var patches []string
	m1, _ := filepath.Glob(filepath.Join(r.Verif, "mutants", r.Prop+"_*.patch"))
	m2, _ := filepath.Glob(filepath.Join(r.Verif, "seeded", r.Prop+"-*", "patch.diff"))
	patches = append(append(patches, m1...), m2...)
	sort.Strings(patches)
	if len(patches) == 0 {
		return nil
	}
	exe, err := os.Executable()
	if err != nil {
		return nil
	}
	var out []selfTestResult
	for _, p := range patches {
		res := selfTestResult{Patch: strings.TrimPrefix(p, r.Verif+"/")}
		dir, err := os.MkdirTemp("", "nplint-selftest-")
		if err != nil {
			res.Outcome = "not-applicable"
			out = append(out, res)
			continue
		}
		func() {
			defer os.RemoveAll(dir)
			cp := exec.Command("rsync", "-a", "--exclude", ".git", r.Repo+"/", dir+"/")
			if err := cp.Run(); err != nil {
				res.Outcome = "not-applicable"
				return
			}
			ap := exec.Command("patch", "-p1", "-s", "-f", "-i", p)
			ap.Dir = dir
			if err := ap.Run(); err != nil {
				res.Outcome = "not-applicable"
				return
			}
			vd := filepath.Join(dir, ".verif")
			os.MkdirAll(vd, 0o755)
			if b, err := os.ReadFile(filepath.Join(r.Verif, "known_findings.json")); err == nil {
				os.WriteFile(filepath.Join(vd, "known_findings.json"), b, 0o644)
			}
			cmd := exec.Command(exe, "-prop", r.Prop, "-tier", "quick", "-repo", dir, "-verif", vd)
			b, _ := cmd.CombinedOutput()
			code := cmd.ProcessState.ExitCode()
			switch code {
			case 1:
				res.Outcome = "killed"
			case 0:
				res.Outcome = "missed"
			default:
				res.Outcome = "broken"
			}
			for _, l := range strings.Split(string(b), "\n") {
				if strings.HasPrefix(l, "VIOLATED ") && !strings.HasPrefix(l, "VIOLATED C") {
					f := strings.Fields(l)
					if len(f) > 1 && len(res.Keys) < 4 {
						res.Keys = append(res.Keys, f[1])
					}
				}
			}
		}()
		out = append(out, res)
	}
	k, m := 0, 0
	for _, x := range out {
		if x.Outcome == "killed" {
			k++
		} else if x.Outcome == "missed" {
			m++
		}
	}
	fmt.Printf("SELFTEST property=%s patches=%d killed=%d missed=%d (information only)\n", r.Prop, len(out), k, m)
	return out
}
