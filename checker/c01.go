package main

import (
	"fmt"
	"go/token"
	"go/types"
	"sort"
	"strings"

	"golang.org/x/tools/go/ssa"
)

func init() {
	register("C01",
		"Decides structural necessary conditions of the FIFO contract of UnsafeLinkBuffer, not the byte values: (R1) in every size-taking Reader method nothing is mutated before the Len() < n test has failed (a short read consumes nothing); (R2) every method that advances a node's read offset first subtracts from the atomic length through recalLen with a negated count, and every method that makes bytes readable (Flush, bookAck, WriteBuffer) adds through recalLen; (R3) the length has a single writer set (recalLen, Close, the fresh Slice reader, the donor reset) and the Peek cache is invalidated inside recalLen on every negative delta; (R4) every nil-returning path of MallocAck stores the malloc offset of the node the write cursor ends on (bytes discarded by MallocAck(0) do not become readable); (R5) a node's Malloc is reached only after growth() (which leaves on a managed node with room, or a fresh one) or from book(); (R6) the reader side never reads the writer's cursor (it stops at flush), and Append links the donor chain from the donor's read cursor; (R7, shared with C02) Slice nodes pin the root block by its reference count; (R8) every site that makes bytes pending adds the same count to mallocSize; (R9) Slice refers and links every node it marks; (R10) MallocAck's discard walk and WriteDirect's write cursor go to the end of the chain; (R11) a node's own buffer is cut to a constant length only where its read offset is reset as well (off <= len(buf)). Not decided: which bytes are returned, order, exactly-once, Len/MallocLen values, node-boundary arithmetic, Append/Slice content - value properties of a linked structure that need shape analysis plus arithmetic.",
		[]string{"single reader / single writer per buffer (API contract)"},
		func(r *Run) {
			cfgs := []string{"linux"}
			if r.Tier == "thorough" {
				cfgs = []string{"linux", "linux-race", "darwin"}
			}
			for _, c := range cfgs {
				if r.useOpt(c) == nil {
					continue
				}
				c01(r)
			}
		})
}

// mutSummary: functions of the module that may write non-local memory (struct fields, slice
// elements, globals) directly or through module callees.
var mutCache = map[*World]map[*ssa.Function]bool{}

func mutators(w *World) map[*ssa.Function]bool {
	if m, ok := mutCache[w]; ok {
		return m
	}
	m := map[*ssa.Function]bool{}
	direct := func(fn *ssa.Function) bool {
		found := false
		forEachIns(fn, func(ins ssa.Instruction) {
			switch x := ins.(type) {
			case *ssa.Store:
				if !isLocalCell(x.Addr) {
					found = true
				}
			case *ssa.Call:
				if a := asAtomic(x); a != nil && a.Op != "Load" {
					found = true
				}
			}
		})
		return found
	}
	for _, f := range w.Funcs {
		if direct(f) {
			m[f] = true
		}
	}
	for changed := true; changed; {
		changed = false
		for _, f := range w.Funcs {
			if m[f] {
				continue
			}
			forEachIns(f, func(ins ssa.Instruction) {
				if c := calleeOf(ins); c != nil && m[c] && !m[f] {
					m[f] = true
					changed = true
				}
			})
		}
	}
	mutCache[w] = m
	return m
}

func isLocalCell(addr ssa.Value) bool {
	for {
		switch x := addr.(type) {
		case *ssa.Alloc:
			return true
		case *ssa.IndexAddr:
			// element of a local array
			if a, ok := x.X.(*ssa.Alloc); ok {
				_ = a
				return true
			}
			return false
		case *ssa.FieldAddr:
			if a, ok := x.X.(*ssa.Alloc); ok && !a.Heap {
				return true
			}
			return false
		default:
			return false
		}
	}
}

// isMutation: the instruction changes buffer state (or may, through a module callee / pool primitive).
func isMutation(w *World, ins ssa.Instruction) bool {
	switch x := ins.(type) {
	case *ssa.Store:
		return !isLocalCell(x.Addr)
	case *ssa.Call:
		if a := asAtomic(x); a != nil {
			return a.Op != "Load"
		}
		if c := x.Call.StaticCallee(); c != nil {
			if c.Blocks != nil && isModulePkg(c.Pkg.Pkg) {
				return mutators(w)[c]
			}
			if c.Pkg != nil && strings.HasSuffix(c.Pkg.Pkg.Path(), "/mcache") {
				return true
			}
		}
	case *ssa.Defer:
		return true
	}
	return false
}

func bufMethod(w *World, name string) *ssa.Function { return w.MustFn("(*UnsafeLinkBuffer)." + name) }

func c01(r *Run) {
	w := r.W
	recal := bufMethod(w, "recalLen")
	lenEnough := func(v ssa.Value) (bool, bool) {
		// Len() < x  is false   (x: parameter or constant)
		b, ok := v.(*ssa.BinOp)
		if !ok {
			return false, false
		}
		switch {
		case b.Op == token.LSS && isLenCall(b.X):
			return false, true
		case b.Op == token.GEQ && isLenCall(b.X):
			return true, true
		case b.Op == token.GTR && isLenCall(b.Y):
			return false, true
		case b.Op == token.LEQ && isLenCall(b.Y):
			return true, true
		}
		return false, false
	}

	// ---- R1 no consume on failure -------------------------------------------------------------------
	for _, name := range []string{"Next", "Peek", "Skip", "ReadString", "ReadBinary", "ReadByte", "Slice"} {
		fn := bufMethod(w, name)
		muts := findIns(fn, func(i ssa.Instruction) bool { return isMutation(w, i) })
		if len(muts) == 0 {
			r.ob("C01.R1:consumes:"+name, "the Reader method consumes from the buffer", fn, nil, false, "no mutation found: anchor lost", false)
		}
		bad := 0
		var firstWit *Witness
		var firstSite ssa.Instruction
		for _, m := range muts {
			// Slice's n<=0 branch builds a fresh empty buffer: NewLinkBuffer is not a mutation of b
			if c := calleeOf(m); c != nil && (c.Name() == "NewLinkBuffer") {
				continue
			}
			base := &Search{Fn: fn}
			wit := guardWitness(fn, m, lenEnough, base)
			r.Visited += base.Visited
			if wit != nil {
				bad++
				if firstWit == nil {
					firstWit, firstSite = wit, m
				}
			}
		}
		if bad == 0 {
			r.ob("C01.R1:no-consume-before-length-check:"+name, "nothing in the buffer is changed before the method has established Len() >= n: a read asking for more than is readable fails without consuming anything", fn, nil, true, fmt.Sprintf("%d mutation sites, all guarded by Len()<n == false", len(muts)), true)
		} else {
			r.ob("C01.R1:no-consume-before-length-check:"+name, "nothing in the buffer is changed before the method has established Len() >= n: a read asking for more than is readable fails without consuming anything", fn, firstSite, false, fmt.Sprintf("%d unguarded mutation(s); first: %s", bad, r.witnessText(firstWit)), true)
		}
		// the failing branch returns an error
		starts := edgesEstablishing(fn, func(v ssa.Value) (bool, bool) {
			pol, ok := lenEnough(v)
			return !pol, ok
		})
		ss := &Search{Fn: fn}
		okErr := len(starts) > 0
		for _, ret := range ss.Reachable(starts, func(i ssa.Instruction) bool { _, ok := i.(*ssa.Return); return ok }) {
			if lastResultAll(ret.(*ssa.Return), isNilConst) {
				okErr = false
			}
		}
		r.Visited += ss.Visited
		r.ob("C01.R1:short-read-errors:"+name, "when fewer than n bytes are readable the method returns an error", fn, nil, okErr, "Len()<n edge returns a non-nil error", true)
	}
	// Until: the not-found path consumes nothing
	{
		fn := bufMethod(w, "Until")
		next := bufMethod(w, "Next")
		idx := bufMethod(w, "indexByte")
		for _, m := range findIns(fn, func(i ssa.Instruction) bool { return isMutation(w, i) }) {
			r.ob("C01.R1:until-consumes-via-next:"+siteKey(w, m), "Until consumes only through Next (after the delimiter was found)", fn, m, isCall(m, next), insText(m), false)
		}
		r.ob("C01.R1:index-scan-is-pure", "the delimiter scan does not modify the buffer", idx, nil, !mutators(w)[idx], "indexByte has no writes", true)
	}

	// ---- R2 accounting ----------------------------------------------------------------------------------
	nodeNext := w.MustFn("(*linkBufferNode).Next")
	nodeRefer := w.MustFn("(*linkBufferNode).Refer")
	isRecalNeg := func(i ssa.Instruction) bool {
		if !isCall(i, recal) {
			return false
		}
		a := argVal(callCommon(i), 0)
		if u, ok := a.(*ssa.UnOp); ok && u.Op == token.SUB {
			return true
		}
		if b, ok := a.(*ssa.BinOp); ok && b.Op == token.SUB && isConstEq(0)(b.X) {
			return true
		}
		k, ok := constInt(a)
		return ok && k < 0
	}
	advExempt := map[string]string{
		"WriteDirect": "sets the offset of a fresh node it is inserting (nothing becomes consumed)",
	}
	nAdv := 0
	for _, fn := range w.Funcs {
		if fn.Signature.Recv() == nil || !isPointerToNamed(fn.Signature.Recv().Type(), "UnsafeLinkBuffer") {
			continue
		}
		if advExempt[fn.Name()] != "" {
			continue
		}
		sites := findIns(fn, func(i ssa.Instruction) bool {
			return isStoreToField(i, "linkBufferNode", "off") || isCall(i, nodeNext) || isCall(i, nodeRefer)
		})
		if len(sites) == 0 {
			continue
		}
		nAdv++
		bad := 0
		var wit0 *Witness
		var site0 ssa.Instruction
		// unsubtracted: a path from the entry of f to site without recalLen(-n); for an unexported helper the
		// obligation moves to its callers (every call of the helper must itself come after recalLen(-n))
		var unsubtracted func(f *ssa.Function, site ssa.Instruction, depth int) *Witness
		unsubtracted = func(f *ssa.Function, site ssa.Instruction, depth int) *Witness {
			ss := &Search{Fn: f, Stop: isRecalNeg}
			wit := ss.Find([]Start{Entry(f)}, isIns(site), false)
			r.Visited += ss.Visited
			if wit == nil || depth >= 2 || token.IsExported(f.Name()) {
				return wit
			}
			callers := callSitesOf(w, f)
			if len(callers) == 0 {
				return wit
			}
			for _, cs := range callers {
				if _, isDefer := cs.(*ssa.Defer); isDefer {
					return wit
				}
				if cw := unsubtracted(cs.Parent(), cs, depth+1); cw != nil {
					return cw
				}
			}
			return nil
		}
		for _, s := range sites {
			if wit := unsubtracted(fn, s, 0); wit != nil {
				bad++
				if wit0 == nil {
					wit0, site0 = wit, s
				}
			}
		}
		detail := fmt.Sprintf("%d read-offset advances, all after recalLen(-n)", len(sites))
		if bad > 0 {
			detail = fmt.Sprintf("%d advance(s) not preceded by recalLen(-n); first: %s", bad, r.witnessText(wit0))
		}
		r.ob("C01.R2:length-subtracted-before-consume:"+fn.Name(), "a method that advances a node's read offset has subtracted the consumed count from the atomic length first (Len() never over-reports; the Peek cache is invalidated)", fn, site0, bad == 0, detail, true)
	}
	if nAdv < 5 {
		r.absentf(" C01: only %d consuming methods found", nAdv)
	}
	// the count subtracted is the count checked: recalLen's argument is the negation of the size parameter
	for _, name := range []string{"Next", "Skip", "readBinary", "Slice"} {
		fn := bufMethod(w, name)
		ok := false
		forEachIns(fn, func(i ssa.Instruction) {
			if isCall(i, recal) {
				a := argVal(callCommon(i), 0)
				if u, isU := a.(*ssa.UnOp); isU && u.Op == token.SUB {
					if p, isP := u.X.(*ssa.Parameter); isP && p.Parent() == fn {
						ok = true
					}
				}
			}
		})
		r.ob("C01.R2:subtracts-requested-size:"+name, "the length is reduced by exactly the requested size", fn, nil, ok, "recalLen(-n) with n the size parameter", true)
	}
	for _, name := range []string{"Flush", "bookAck"} {
		fn := bufMethod(w, name)
		r.mustPass("C01.R2:length-added-on-publish:"+name, "a method that makes bytes readable adds them to the atomic length on every path", fn, nil, []Start{Entry(fn)}, func(i ssa.Instruction) bool { return isCall(i, recal) }, nil, nil, "recalLen on every path")
		// the length is what a concurrent reader looks at (the poller fills the input buffer while the user reads it): the
		// flushed boundary is moved before the new length is published, or the reader consumes up to the new length, walks
		// past a boundary that still lags behind and Release steps over the end of the chain
		for _, pub := range findIns(fn, func(i ssa.Instruction) bool { return isCall(i, recal) }) {
			r.precedes("C01.R2:boundary-before-length:"+name, "the flushed boundary (b.flush) is moved before the new length is published by recalLen: a reader that sees the new length must find the boundary already there", fn, pub, func(i ssa.Instruction) bool { return isStoreToField(i, "UnsafeLinkBuffer", "flush") }, nil, "b.flush = ... dominates recalLen(n)")
		}
	}
	{
		fn := bufMethod(w, "WriteBuffer")
		// after splicing the donor's nodes in, the length is added whenever the donor had readable bytes
		splices := findIns(fn, func(i ssa.Instruction) bool { return isStoreToField(i, "linkBufferNode", "next") })
		if len(splices) == 0 {
			r.ob("C01.R2:length-added-on-publish:WriteBuffer", "WriteBuffer splices the donor's nodes in", fn, nil, false, "no store to node.next", false)
		} else {
			hadData := func(v ssa.Value) (bool, bool) {
				b, ok := v.(*ssa.BinOp)
				if !ok || !isLenCall(stripConv(b.X)) || !isConstEq(0)(b.Y) {
					return false, false
				}
				switch b.Op {
				case token.GTR, token.NEQ:
					return false, true // fact = "no data" on the false side
				case token.LEQ, token.EQL:
					return true, true
				}
				return false, false
			}
			ss := &Search{Fn: fn, Stop: func(i ssa.Instruction) bool { return isCall(i, recal) }, CutEdge: cutOn(hadData)}
			wit := ss.Find([]Start{After(splices[0])}, nil, true)
			r.Visited += ss.Visited
			r.obW("C01.R2:length-added-on-publish:WriteBuffer", "after splicing a donor with readable bytes WriteBuffer adds them to the length", fn, splices[0], wit, "recalLen(bufLen) unless bufLen == 0")
		}
	}

	// ---- R3 single writer of the length; cache invalidation ----------------------------------------
	lenWriters := map[string]string{
		"(*UnsafeLinkBuffer).recalLen":    "the accounting primitive (atomic add)",
		"(*UnsafeLinkBuffer).Close":       "atomic reset when the buffer is recycled",
		"(*UnsafeLinkBuffer).Slice":       "initialises the fresh Slice reader",
		"(*UnsafeLinkBuffer).WriteBuffer": "resets the donor it has emptied",
	}
	for _, f := range w.Funcs {
		name := w.FnName(f)
		seen := false
		forEachIns(f, func(i ssa.Instruction) {
			w1 := isStoreToField(i, "UnsafeLinkBuffer", "length")
			if a := asAtomic(i); a != nil && a.Op != "Load" && structFieldOfAddr(a.Addr) == "UnsafeLinkBuffer.length" {
				w1 = true
			}
			if w1 && !seen {
				seen = true
				r.ob("C01.R3:who-writes-length:"+name, "the readable length is written only by recalLen, Close and the two initialisers (every other change goes through the accounting primitive)", f, i, lenWriters[name] != "", lenWriters[name], false)
			}
		})
	}
	{
		// recalLen: negative delta => cachePeek truncated/invalidated
		negDelta := func(v ssa.Value) (bool, bool) {
			b, ok := v.(*ssa.BinOp)
			if !ok {
				return false, false
			}
			if p, isP := b.X.(*ssa.Parameter); isP && p.Parent() == recal && isConstEq(0)(b.Y) {
				switch b.Op {
				case token.LSS:
					return true, true
				case token.GEQ:
					return false, true
				}
			}
			return false, false
		}
		hasCache := func(v ssa.Value) (bool, bool) {
			b, ok := v.(*ssa.BinOp)
			if !ok || !isConstEq(0)(b.Y) {
				return false, false
			}
			c, ok := b.X.(*ssa.Call)
			if !ok {
				return false, false
			}
			if bi, isB := c.Call.Value.(*ssa.Builtin); !isB || bi.Name() != "len" || !strings.HasSuffix(pathOf(c.Call.Args[0]), ".cachePeek") {
				return false, false
			}
			switch b.Op {
			case token.GTR, token.NEQ:
				return true, true
			case token.LEQ, token.EQL:
				return false, true
			}
			return false, false
		}
		starts := edgesEstablishing(recal, hasCache)
		var keep []Start
		for _, e := range starts {
			pb := e.B.Preds[e.Pred]
			if r.guardedQuiet(recal, pb.Instrs[len(pb.Instrs)-1], negDelta) {
				keep = append(keep, e)
			}
		}
		r.mustPass("C01.R3:consume-invalidates-peek-cache", "every consumption (negative delta) invalidates the multi-node Peek cache, so a later Peek cannot return stale bytes", recal, nil, keep,
			func(i ssa.Instruction) bool { return isStoreToField(i, "UnsafeLinkBuffer", "cachePeek") }, nil, nil, "cachePeek reset on the (delta<0, len(cachePeek)>0) edge")
		r.mustPass("C01.R3:recalLen-adds-atomically", "recalLen applies the delta with one atomic add and returns the new length", recal, nil, []Start{Entry(recal)}, func(i ssa.Instruction) bool {
			a := asAtomic(i)
			return a != nil && a.Op == "Add" && structFieldOfAddr(a.Addr) == "UnsafeLinkBuffer.length"
		}, nil, nil, "AddInt64(&length, delta) on every path")
	}

	// ---- R4 MallocAck truncates its boundary node -----------------------------------------------------
	{
		fn := bufMethod(w, "MallocAck")
		isTrunc := func(i ssa.Instruction) bool {
			st, ok := i.(*ssa.Store)
			if !ok || !isStoreToField(i, "linkBufferNode", "malloc") {
				return false
			}
			fa := st.Addr.(*ssa.FieldAddr)
			_, isWrite := loadOfField(fa.X, "UnsafeLinkBuffer", "write")
			return isWrite
		}
		ss := &Search{Fn: fn, Stop: isTrunc}
		var wit *Witness
		for _, ret := range ss.Reachable([]Start{Entry(fn)}, func(i ssa.Instruction) bool { _, ok := i.(*ssa.Return); return ok }) {
			if lastResultAll(ret.(*ssa.Return), isNilConst) {
				s2 := &Search{Fn: fn, Stop: isTrunc}
				wit = s2.Find([]Start{Entry(fn)}, isIns(ret), false)
				r.Visited += s2.Visited
			}
		}
		r.Visited += ss.Visited
		r.obW("C01.R4:MallocAck:truncates-boundary", "on every successful path MallocAck stores the malloc offset of the node its write cursor ends on: the bytes behind the acknowledged count on that node are discarded too (MallocAck(0) included) and cannot be committed by the next Flush", fn, nil, wit, "b.write.malloc = ... on every nil-returning path")
		// the discard loop starts behind the write cursor
		okDiscard := false
		forEachIns(fn, func(i ssa.Instruction) {
			if st, ok := i.(*ssa.Store); ok && isStoreToField(i, "linkBufferNode", "malloc") {
				fa := st.Addr.(*ssa.FieldAddr)
				if phi, isPhi := fa.X.(*ssa.Phi); isPhi {
					for _, e := range phi.Edges {
						if base, ok := loadOfField(e, "linkBufferNode", "next"); ok {
							if _, isW := loadOfField(base, "UnsafeLinkBuffer", "write"); isW {
								okDiscard = true
							}
						}
					}
				}
			}
		})
		r.ob("C01.R4:MallocAck:discards-tail", "every node behind the write cursor is emptied of pending bytes", fn, nil, okDiscard, "loop from b.write.next resets malloc/buf", true)
		// the write cursor restarts at the flush boundary
		okRestart := false
		forEachIns(fn, func(i ssa.Instruction) {
			if st, ok := i.(*ssa.Store); ok && isStoreToField(i, "UnsafeLinkBuffer", "write") {
				if _, isF := loadOfField(st.Val, "UnsafeLinkBuffer", "flush"); isF {
					okRestart = true
				}
			}
		})
		r.ob("C01.R4:MallocAck:restarts-at-flush", "the acknowledged count is measured from the flush boundary", fn, nil, okRestart, "b.write = b.flush", true)
	}
	// Flush commits exactly flush..write and moves the boundary
	{
		fn := bufMethod(w, "Flush")
		ok := false
		forEachIns(fn, func(i ssa.Instruction) {
			if st, isSt := i.(*ssa.Store); isSt && isStoreToField(i, "UnsafeLinkBuffer", "flush") {
				if _, isW := loadOfField(st.Val, "UnsafeLinkBuffer", "write"); isW {
					ok = true
				}
			}
		})
		r.ob("C01.R4:Flush-moves-boundary", "Flush moves the flushed boundary to the write cursor", fn, nil, ok, "b.flush = b.write", true)
	}

	// ---- R5 growth ---------------------------------------------------------------------------------------
	{
		nodeMalloc := w.MustFn("(*linkBufferNode).Malloc")
		growth := bufMethod(w, "growth")
		for _, site := range callSitesOf(w, nodeMalloc) {
			fn := site.Parent()
			if fn.Name() == "book" {
				r.ob("C01.R5:malloc-after-growth:book", "book() allocates from the connection's input buffer, whose nodes are all created with a positive size (managed)", fn, site, true, "poller-side allocation", false)
				continue
			}
			r.precedes("C01.R5:malloc-after-growth:"+siteKey(w, site), "a node's Malloc is reached only after growth() positioned the write cursor on a managed node with enough room", fn, site, func(i ssa.Instruction) bool { return isCall(i, growth) }, nil, "growth() dominates node.Malloc")
		}
		// growth leaves either on a fresh node or with "managed and enough room"
		getFlag := w.MustFn("(*linkBufferNode).getFlag")
		unmanaged := w.ConstInt("flagUnmanaged")
		managedFact := callResultAtom(getFlag, false, unmanaged)
		newNode := w.MustFn("newLinkBufferNode")
		ss := &Search{Fn: growth, Stop: func(i ssa.Instruction) bool { return isCall(i, newNode) }, CutEdge: cutOn(managedFact)}
		// early return for n <= 0 is accepted: cut it
		nonPos := func(v ssa.Value) (bool, bool) {
			b, ok := v.(*ssa.BinOp)
			if !ok {
				return false, false
			}
			if p, isP := b.X.(*ssa.Parameter); isP && p.Parent() == growth && isConstEq(0)(b.Y) && b.Op == token.LEQ {
				return true, true
			}
			return false, false
		}
		ss.CutEdge = func(ifi *ssa.If, cond ssa.Value, branch bool) bool {
			return implies(cond, branch, managedFact) || implies(cond, branch, nonPos)
		}
		wit := ss.Find([]Start{Entry(growth)}, nil, true)
		r.Visited += ss.Visited
		r.obW("C01.R5:growth-skips-unmanaged", "growth() returns only with the write cursor on a node it has seen to be managed, or on a freshly created one: caller-owned memory (WriteBinary / WriteDirect nodes) is never handed out for writing", growth, nil, wit, "exit guarded by getFlag(flagUnmanaged)==false or preceded by newLinkBufferNode")
	}
	// ---- R6 the reader stops at the published boundary; Append splices from the donor's read cursor ----
	{
		rd := w.NamedType("Reader").Underlying().(*types.Interface)
		side := map[*ssa.Function]bool{}
		var work []*ssa.Function
		add := func(f *ssa.Function) {
			if f != nil && !side[f] {
				side[f] = true
				work = append(work, f)
			}
		}
		for i := 0; i < rd.NumMethods(); i++ {
			add(w.Fn("(*UnsafeLinkBuffer)." + rd.Method(i).Name()))
		}
		add(w.Fn("(*UnsafeLinkBuffer).readCopy"))
		for len(work) > 0 {
			f := work[0]
			work = work[1:]
			forEachIns(f, func(i ssa.Instruction) {
				if _, isDefer := i.(*ssa.Defer); isDefer {
					return
				}
				c := calleeOf(i)
				if c == nil || c.Signature.Recv() == nil || len(f.Params) == 0 {
					return
				}
				if args := callCommon(i).Args; len(args) > 0 && args[0] == f.Params[0] && strings.HasPrefix(w.FnName(c), "(*UnsafeLinkBuffer).") {
					add(c)
				}
			})
		}
		if len(side) < 10 {
			r.absentf(" C01: only %d reader-side functions found", len(side))
		}
		var names []string
		for f := range side {
			names = append(names, w.FnName(f))
		}
		sort.Strings(names)
		for _, name := range names {
			f := w.MustFn(name)
			var bad ssa.Instruction
			forEachIns(f, func(i ssa.Instruction) {
				u, ok := i.(*ssa.UnOp)
				if !ok || u.Op != token.MUL || bad != nil {
					return
				}
				if tn, fld, base, ok := fieldOf(u.X); ok && tn == "UnsafeLinkBuffer" && fld == "write" && len(f.Params) > 0 && base == f.Params[0] {
					bad = i
				}
			})
			r.ob("C01.R6:reader-stops-at-flush:"+f.Name(), "the reader side (Reader methods, the copying read and their helpers) walks the chain up to the published boundary (flush) and by the length only; it never consults the writer's cursor of its own buffer - bytes behind flush are not readable yet", f, bad, bad == nil, "no load of b.write", false)
		}
		// Append: the chain linked behind the write cursor starts at the donor's read cursor (the nodes in
		// front of it hold consumed bytes: Skip/Next do not empty the nodes they pass)
		wb := bufMethod(w, "WriteBuffer")
		n := 0
		forEachIns(wb, func(i ssa.Instruction) {
			st, ok := i.(*ssa.Store)
			if !ok || !isStoreToField(i, "linkBufferNode", "next") {
				return
			}
			_, _, base, _ := fieldOf(st.Addr)
			if _, isW := loadOfField(base, "UnsafeLinkBuffer", "write"); !isW {
				return
			}
			if c, isC := st.Val.(*ssa.Const); isC && c.IsNil() {
				return
			}
			n++
			src, fromRead := loadOfField(st.Val, "UnsafeLinkBuffer", "read")
			// under the race build the donor is a SafeLinkBuffer that embeds the unsafe one: look through the embedding
			root := src
			for root != nil {
				if fa, isFA := root.(*ssa.FieldAddr); isFA {
					root = fa.X
					continue
				}
				if u, isU := root.(*ssa.UnOp); isU && u.Op == token.MUL {
					root = u.X
					continue
				}
				break
			}
			okv := fromRead && len(wb.Params) > 1 && root == wb.Params[1]
			r.ob("C01.R6:append-splices-from-read-cursor:"+siteKey(w, i), "Append links the donor's chain starting at the donor's read cursor: consumed bytes in front of it do not become readable again", wb, i, okv, "b.write.next = buf.read", true)
		})
		if n == 0 {
			r.absentf(" C01: WriteBuffer links nothing behind the write cursor")
		}
	}
	// ... and the receiver's write cursor ends on the donor's write cursor: everything the donor had reserved (also behind its
	// flush cursor) stays in front of the receiver's write cursor, where the next Flush commits it
	{
		wb := bufMethod(w, "WriteBuffer")
		rootOf := func(v ssa.Value) ssa.Value {
			for v != nil {
				if fa, isFA := v.(*ssa.FieldAddr); isFA {
					v = fa.X
					continue
				}
				if u, isU := v.(*ssa.UnOp); isU && u.Op == token.MUL {
					v = u.X
					continue
				}
				break
			}
			return v
		}
		n := 0
		forEachIns(wb, func(i ssa.Instruction) {
			st, ok := i.(*ssa.Store)
			if !ok || !isStoreToField(i, "UnsafeLinkBuffer", "write") || len(wb.Params) < 2 {
				return
			}
			_, _, base, _ := fieldOf(st.Addr)
			if rootOf(base) != wb.Params[0] {
				return // the donor's own cursor (closing the donor)
			}
			n++
			src, fromWrite := loadOfField(st.Val, "UnsafeLinkBuffer", "write")
			okv := fromWrite && rootOf(src) == wb.Params[1]
			r.ob("C01.R6:append-adopts-the-donors-write-cursor:"+siteKey(w, i), "after Append the receiver's write cursor is the donor's write cursor (not its flush cursor): the donor's reserved-but-unflushed nodes stay in the flush..write range, so the receiver's Flush commits what MallocLen counts", wb, i, okv, "b.write = buf.write", true)
		})
		if n == 0 {
			r.absentf(" C01: WriteBuffer does not move the receiver's write cursor")
		}
	}
	// ... and it does not publish the donor's bytes past the receiver's own pending bytes: "readable only once flushed, in the
	// order written" - WriteBuffer adding the donor's readable length while the receiver still has reserved, unflushed bytes in
	// front of the donor's nodes makes the younger bytes readable first (F33, open)
	{
		wb := bufMethod(w, "WriteBuffer")
		recal := bufMethod(w, "recalLen")
		nothingPending := cmpAtom(func(v ssa.Value) bool {
			if _, ok := loadOfField(v, "UnsafeLinkBuffer", "mallocSize"); ok {
				return true
			}
			c, ok := v.(*ssa.Call)
			return ok && c.Call.StaticCallee() != nil && c.Call.StaticCallee().Name() == "MallocLen" && len(wb.Params) > 0 && len(c.Call.Args) > 0 && c.Call.Args[0] == ssa.Value(wb.Params[0])
		}, isConstEq(0), eqRel)
		sites := findIns(wb, func(i ssa.Instruction) bool { return isCall(i, recal) })
		for _, site := range sites {
			base := &Search{Fn: wb}
			wit := guardWitness(wb, site, nothingPending, base)
			r.Visited += base.Visited
			r.obW("C01.R6:append-publishes-behind-pending", "Append makes the donor's bytes readable at once only when the receiver has nothing pending (mallocSize == 0); otherwise they become readable with the Flush that also publishes the older pending bytes in front of them", wb, site, wit, "guarded by mallocSize == 0")
		}
		if len(sites) == 0 {
			r.ob("C01.R6:append-publishes-behind-pending", "Append publishes nothing itself (the donor's bytes become readable with the receiver's Flush)", wb, nil, true, "no recalLen in WriteBuffer", false)
		}
	}
	if r.keep == nil {
		// the bytes Peek hands out are the bytes of the node it marks (C02.R1): marked elsewhere, a copying read recycles them
		r.borrow([]string{"C02.R1:marked-node-is-handed-out"}, "C02.R1", "C01.R7", func() { c02(r) })
	}
	// ---- R8 pending bytes are counted in mallocSize ------------------------------------------------------
	{
		nodeMalloc := w.MustFn("(*linkBufferNode).Malloc")
		addOperand := func(i ssa.Instruction) (ssa.Value, bool) {
			st, ok := i.(*ssa.Store)
			if !ok || !isStoreToField(i, "UnsafeLinkBuffer", "mallocSize") {
				return nil, false
			}
			b, ok := st.Val.(*ssa.BinOp)
			if !ok || b.Op != token.ADD {
				return nil, false
			}
			if _, isLoad := loadOfField(b.X, "UnsafeLinkBuffer", "mallocSize"); isLoad {
				return b.Y, true
			}
			if _, isLoad := loadOfField(b.Y, "UnsafeLinkBuffer", "mallocSize"); isLoad {
				return b.X, true
			}
			return nil, false
		}
		isAdd := func(i ssa.Instruction) bool { _, ok := addOperand(i); return ok }
		sameCount := func(a, b ssa.Value) bool {
			if a == b {
				return true
			}
			la, oka := a.(*ssa.Call)
			lb, okb := b.(*ssa.Call)
			if oka && okb {
				ba, isBa := la.Call.Value.(*ssa.Builtin)
				bb, isBb := lb.Call.Value.(*ssa.Builtin)
				return isBa && isBb && ba.Name() == "len" && bb.Name() == "len" && la.Call.Args[0] == lb.Call.Args[0]
			}
			return false
		}
		exempt := map[string]string{"book": "the poller's reservation is committed at once by bookAck; the input path does not use mallocSize"}
		nProd := 0
		for _, fn := range w.Funcs {
			if fn.Signature.Recv() == nil || !isPointerToNamed(fn.Signature.Recv().Type(), "UnsafeLinkBuffer") || exempt[fn.Name()] != "" {
				continue
			}
			// nodes that get caller memory in this function
			callerNodes := map[ssa.Value]bool{}
			forEachIns(fn, func(i ssa.Instruction) {
				if st, ok := i.(*ssa.Store); ok && isStoreToField(i, "linkBufferNode", "buf") && derivesFromParam(st.Val, fn, 0) {
					callerNodes[nodeOrigin(st.Addr.(*ssa.FieldAddr).X, i, 0)] = true
				}
			})
			for _, i := range allIns(fn) {
				var count ssa.Value
				what := ""
				if isCall(i, nodeMalloc) {
					count, what = callCommon(i).Args[1], "node.Malloc"
				} else if st, ok := i.(*ssa.Store); ok && isStoreToField(i, "linkBufferNode", "malloc") && callerNodes[nodeOrigin(st.Addr.(*ssa.FieldAddr).X, i, 0)] {
					count, what = st.Val, "caller-memory node"
				} else {
					continue
				}
				nProd++
				key := "C01.R8:pending-bytes-counted:" + siteKey(w, i)
				rule := "a writer method that makes bytes pending (a node Malloc, or a node wrapping the caller's slice) adds their count to mallocSize on every path through that site: MallocLen() equals the pending byte count, and Append does not drop a buffer whose only content is pending"
				before := &Search{Fn: fn, Stop: isAdd}
				w1 := before.Find([]Start{Entry(fn)}, isIns(i), false)
				after := &Search{Fn: fn, Stop: isAdd}
				w2 := after.Find([]Start{After(i)}, nil, true)
				r.Visited += before.Visited + after.Visited
				if w1 != nil && w2 != nil {
					r.obW(key, rule, fn, i, w1, "")
					continue
				}
				// the amount added is the amount produced
				same := false
				forEachIns(fn, func(j ssa.Instruction) {
					if v, ok := addOperand(j); ok && sameCount(v, count) {
						same = true
					}
				})
				r.ob(key, rule, fn, i, same, what+": mallocSize += the same count on every path", true)
			}
		}
		if nProd < 2 {
			r.absentf(" C01: only %d sites that make bytes pending", nProd)
		}
	}
	// ---- R9 Slice links every node it walks over ----------------------------------------------------------
	{
		sl := bufMethod(w, "Slice")
		setFlag := w.MustFn("(*linkBufferNode).setFlag")
		refer := w.MustFn("(*linkBufferNode).Refer")
		exposedK := w.ConstInt("flagReadExposed")
		n := 0
		for _, m := range findIns(sl, func(i ssa.Instruction) bool {
			if !isCall(i, setFlag) {
				return false
			}
			k, ok := constInt(callCommon(i).Args[1])
			return ok && k == exposedK
		}) {
			n++
			r.mustPass("C01.R9:slice-refers-every-node-it-takes", "in Slice every node whose bytes belong to the slice (it is marked exposed) is also referred and linked into the new reader before Slice moves on: a node that is skipped leaves the reader shorter than its declared length", sl, m, []Start{After(m)}, func(i ssa.Instruction) bool { return isCall(i, refer) }, nil, nil, "Refer() on every path after the mark")
		}
		if n < 3 {
			r.absentf(" C01: Slice marks only %d nodes", n)
		}
		// ... and what Refer returns is linked: stored into the new reader's chain
		for _, c := range findIns(sl, func(i ssa.Instruction) bool { return isCall(i, refer) }) {
			linked := false
			for _, ref := range *c.(*ssa.Call).Referrers() {
				if st, ok := ref.(*ssa.Store); ok && st.Val == c.(ssa.Value) {
					linked = true
				}
			}
			r.ob("C01.R9:referred-node-is-linked", "the node Refer returns is stored into the new reader's chain (head / flush.next)", sl, c, linked, "result of Refer is stored", true)
		}
	}
	// ---- R10 walks over the node chain go to its end ----------------------------------------------------------
	{
		// MallocAck: once it started to discard the nodes behind the write cursor it stops only at the end of the chain
		fn := bufMethod(w, "MallocAck")
		endOfChain := func(ifi *ssa.If, cond ssa.Value, branch bool) bool {
			b, ok := cond.(*ssa.BinOp)
			if !ok || (b.Op != token.EQL && b.Op != token.NEQ) {
				return false
			}
			x, y := b.X, b.Y
			if isNilConst(x) {
				x, y = y, x
			}
			if !isNilConst(y) || !isPointerToNamed(x.Type(), "linkBufferNode") {
				return false
			}
			return branch == (b.Op == token.EQL)
		}
		discards := findIns(fn, func(i ssa.Instruction) bool {
			if !isStoreToField(i, "linkBufferNode", "malloc") {
				return false
			}
			// the discard stores node.off (a load of the node's off field), the boundary store an arithmetic value
			st := i.(*ssa.Store)
			_, isOff := loadOfField(st.Val, "linkBufferNode", "off")
			return isOff
		})
		for _, d := range discards {
			ss := &Search{Fn: fn, CutEdge: endOfChain}
			wit := ss.Find([]Start{After(d)}, nil, true)
			r.Visited += ss.Visited
			r.obW("C01.R10:discard-walk-is-complete", "MallocAck's walk that discards the pending bytes of the nodes behind the write cursor ends only at the end of the chain (node == nil): a node it skips keeps its reservation, which the next Flush commits", fn, d, wit, "the only exit after a discard is the node==nil edge")
		}
		// WriteDirect: the write cursor ends on the last node of the chain
		wd := bufMethod(w, "WriteDirect")
		lastNode := func(v ssa.Value) (bool, bool) {
			b, ok := v.(*ssa.BinOp)
			if !ok || (b.Op != token.EQL && b.Op != token.NEQ) || !isNilConst(b.Y) {
				return false, false
			}
			nx, ok := loadOfField(b.X, "linkBufferNode", "next")
			if !ok {
				return false, false
			}
			if _, isW := loadOfField(nx, "UnsafeLinkBuffer", "write"); !isW {
				return false, false
			}
			return b.Op == token.EQL, true
		}
		links := findIns(wd, func(i ssa.Instruction) bool { return isStoreToField(i, "linkBufferNode", "next") })
		if len(links) > 0 {
			ss := &Search{Fn: wd, CutEdge: cutOn(lastNode)}
			wit := ss.Find(startsAfter(links), nil, true)
			r.Visited += ss.Visited
			r.obW("C01.R10:write-cursor-ends-on-the-last-node", "after WriteDirect linked its nodes in, it returns only once it has seen b.write.next == nil: the write cursor is on the last node of the chain, so Flush (which commits flush..write) reaches everything that was reserved", wd, nil, wit, "exit guarded by b.write.next == nil")
		}
	}
	// ---- R11 node invariant off <= len(buf): a re-slice of a node's own buffer to a constant length needs the read offset reset ----
	{
		for _, fn := range w.Funcs {
			fn := fn
			n := 0
			forEachIns(fn, func(i ssa.Instruction) {
				st, ok := i.(*ssa.Store)
				if !ok || !isStoreToField(i, "linkBufferNode", "buf") {
					return
				}
				sl, ok := st.Val.(*ssa.Slice)
				if !ok || sl.Low != nil || sl.High == nil {
					return
				}
				node, ok := loadOfField(sl.X, "linkBufferNode", "buf")
				if !ok || node != st.Addr.(*ssa.FieldAddr).X {
					return // a slice of some other memory (caller's slice, another node): judged by C02/C03
				}
				k, isConst := constInt(sl.High)
				if !isConst {
					return // a bound read from the node (off / malloc) or computed: value arithmetic, not decided
				}
				n++
				// the same function stores the same constant (or a smaller one) into this node's read offset
				okOff := false
				forEachIns(fn, func(j ssa.Instruction) {
					if s2, ok := j.(*ssa.Store); ok && isStoreToField(j, "linkBufferNode", "off") && s2.Addr.(*ssa.FieldAddr).X == node {
						if c, isC := constInt(s2.Val); isC && c <= k {
							okOff = true
						}
					}
				})
				r.ob("C01.R11:truncation-keeps-read-offset-inside:"+w.FnName(fn)+ordinal(n-1), "a node's buffer is cut to a constant length only where the node's read offset is set to that constant too (node invariant off <= len(buf) <= malloc): a node whose read offset lies behind its committed length reports a negative Len() and the next Flush commits bytes nobody wrote", fn, i, okOff, "node.off stored with a constant <= the new length in the same function", true)
			})
		}
	}
	// R7: a block that is still being read must not be recycled under the reader (borrowed reference-count rules)
	r.borrow([]string{"C02.R5:Refer-counts", "C02.R5:Refer-links", "C02.R5:child-releases-root", "C02.R5:free-when-last"}, "C02.R5", "C01.R7", func() { c02(r) })

}
