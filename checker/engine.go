package main

import (
	"fmt"
	"go/constant"
	"go/token"
	"go/types"
	"sort"
	"strings"

	"golang.org/x/tools/go/ssa"
)

// ---------------------------------------------------------------------------------------------
// Path search over the instruction-level control-flow graph of one function.
//
// The search is path-insensitive except for three things that remove the usual false alarms:
//   * phi-aware branch resolution: the state is (block, predecessor), so the `a && b` / `a || b`
//     lowering (a phi of constants and the last operand) is resolved exactly;
//   * constant / assumed boolean values prune infeasible branches (specialising a callee on
//     constant bool arguments);
//   * CutEdge lets a rule remove the edges on which a guard fact is established.
// ---------------------------------------------------------------------------------------------

type Start struct {
	B    *ssa.BasicBlock
	I    int // first instruction index to visit
	Pred int // predecessor index by which B was entered (-1 unknown)
	F    pfacts
}

type Search struct {
	Fn          *ssa.Function
	Stop        func(ins ssa.Instruction) bool
	Assume      func(v ssa.Value) (val bool, ok bool)
	CutEdge     func(ifi *ssa.If, cond ssa.Value, branch bool) bool
	PanicIsExit bool
	Visited     int // instructions visited (for evidence)
	NoInline    bool
	Interest    []func(ins ssa.Instruction) bool // further predicates that make a helper worth following
	OnVisit     func(ins ssa.Instruction)
}

type Witness struct {
	Target ssa.Instruction // nil if the exit was the target
	Exit   ssa.Instruction // the Return/Panic reached when Target is nil
	Trail  []string        // human readable decisions along the path
}

func Entry(fn *ssa.Function) Start { return Start{fn.Blocks[0], 0, -1, nil} }

// After starts just behind ins (ins itself is not visited).
func After(ins ssa.Instruction) Start {
	b := ins.Block()
	for i, x := range b.Instrs {
		if x == ins {
			return Start{b, i + 1, -1, nil}
		}
	}
	panic("After: instruction not in its block")
}

// OnEdge starts at the successor reached by taking `branch` of the If.
func OnEdge(ifi *ssa.If, branch bool) Start {
	b := ifi.Block()
	k := 1
	if branch {
		k = 0
	}
	s := b.Succs[k]
	return Start{s, 0, predIndex(s, b, k), learn(nil, ifi.Cond, branch)}
}

func predIndex(succ, pred *ssa.BasicBlock, succIdx int) int {
	// if pred appears twice among succ.Preds (both branches go to succ), pick by branch order
	n := 0
	first := -1
	for i, p := range succ.Preds {
		if p == pred {
			if first < 0 {
				first = i
			}
			if len(pred.Succs) == 2 && pred.Succs[0] == pred.Succs[1] {
				if n == succIdx {
					return i
				}
				n++
				continue
			}
			return i
		}
	}
	return first
}

func resolvePhi(v ssa.Value, blk *ssa.BasicBlock, pred int) ssa.Value {
	for k := 0; k < 4; k++ {
		phi, ok := v.(*ssa.Phi)
		if !ok || phi.Block() != blk || pred < 0 || pred >= len(phi.Edges) {
			return v
		}
		v = phi.Edges[pred]
	}
	return v
}

// ---- path facts: equalities learnt from the branches taken on this path -----------------------

type pfact struct {
	v    ssa.Value
	kind byte // 'b' boolean value, '=' equals k, '!' differs from k
	k    int64
}

type pfacts []pfact

func (f pfacts) key() string {
	if len(f) == 0 {
		return ""
	}
	ss := make([]string, len(f))
	for i, x := range f {
		ss[i] = fmt.Sprintf("%s%c%d", x.v.Name(), x.kind, x.k)
	}
	sort.Strings(ss)
	return strings.Join(ss, ",")
}

func (f pfacts) has(v ssa.Value, kind byte, k int64) bool {
	for _, x := range f {
		if x.v == v && x.kind == kind && x.k == k {
			return true
		}
	}
	return false
}

func (f pfacts) with(n pfact) pfacts {
	for _, x := range f {
		if x == n {
			return f
		}
	}
	out := make(pfacts, len(f), len(f)+1)
	copy(out, f)
	return append(out, n)
}

// without is applied when the path (re)computes v: facts about the previous value are dropped,
// pending facts (learnt about the value v is about to get) become active.
func (f pfacts) without(v ssa.Value) pfacts {
	has := false
	for _, x := range f {
		if x.v == v {
			has = true
		}
	}
	if !has {
		return f
	}
	var out pfacts
	for _, x := range f {
		if x.v != v {
			out = append(out, x)
		} else if x.kind == 'g' {
			out = append(out, pfact{x.v, 'G', x.k})
		}
	}
	return out
}

func stripConv(v ssa.Value) ssa.Value {
	for {
		switch x := v.(type) {
		case *ssa.Convert:
			v = x.X
			continue
		case *ssa.ChangeType:
			v = x.X
			continue
		}
		return v
	}
}

// cmpConst decomposes  x ==/!= const  (either order).
func cmpConst(v ssa.Value) (x ssa.Value, k int64, eq bool, ok bool) {
	b, isb := v.(*ssa.BinOp)
	if !isb || (b.Op != token.EQL && b.Op != token.NEQ) {
		return nil, 0, false, false
	}
	if n, okc := constInt(b.Y); okc {
		if _, isC := b.X.(*ssa.Const); !isC {
			return stripConv(b.X), n, b.Op == token.EQL, true
		}
	}
	if n, okc := constInt(b.X); okc {
		if _, isC := b.Y.(*ssa.Const); !isC {
			return stripConv(b.Y), n, b.Op == token.EQL, true
		}
	}
	// comparisons with nil: remembered as "== 0" on the (pointer/interface/func) value
	if isNilConst(b.Y) {
		if _, isC := b.X.(*ssa.Const); !isC {
			return b.X, 0, b.Op == token.EQL, true
		}
	}
	if isNilConst(b.X) {
		if _, isC := b.Y.(*ssa.Const); !isC {
			return b.Y, 0, b.Op == token.EQL, true
		}
	}
	return nil, 0, false, false
}

func (s *Search) evalBool(v ssa.Value, f pfacts) (val bool, known bool) {
	switch x := v.(type) {
	case *ssa.Const:
		if x.Value != nil && x.Value.Kind() == constant.Bool {
			return constant.BoolVal(x.Value), true
		}
	case *ssa.UnOp:
		if x.Op == token.NOT {
			if b, ok := s.evalBool(x.X, f); ok {
				return !b, true
			}
			return false, false
		}
	}
	for _, x := range f {
		if x.kind == 'b' && x.v == v {
			return x.k == 1, true
		}
	}
	if x, k, eq, ok := cmpConst(v); ok {
		for _, pf := range f {
			if pf.v != x {
				continue
			}
			if pf.kind == '=' {
				return (pf.k == k) == eq, true
			}
			if pf.kind == '!' && pf.k == k {
				return !eq, true
			}
		}
	}
	if x, k, ok := relConst(v); ok {
		// v is  x >= k
		for _, pf := range f {
			if pf.v != x {
				continue
			}
			switch pf.kind {
			case 'G':
				if pf.k >= k {
					return true, true
				}
				if pf.k == k-1 && f.has(x, '!', pf.k) { // x >= k-1 and x != k-1
					return true, true
				}
			case 'L':
				if pf.k <= k {
					return false, true
				}
			case '=':
				return pf.k >= k, true
			}
		}
	} else if x, k, ok := relConstNeg(v); ok {
		// v is  x < k
		for _, pf := range f {
			if pf.v != x {
				continue
			}
			switch pf.kind {
			case 'G':
				if pf.k >= k {
					return false, true
				}
				if pf.k == k-1 && f.has(x, '!', pf.k) {
					return false, true
				}
			case 'L':
				if pf.k <= k {
					return true, true
				}
			case '=':
				return pf.k < k, true
			}
		}
	}
	if s.Assume != nil {
		return s.Assume(v)
	}
	return false, false
}

// relConst decomposes an ordering comparison against a constant into the normal form  x >= k
// (ok) - or, through relConstNeg, x < k.
func relNorm(v ssa.Value) (x ssa.Value, k int64, ge bool, ok bool) {
	b, isb := v.(*ssa.BinOp)
	if !isb {
		return nil, 0, false, false
	}
	op := b.Op
	var c int64
	if n, okc := constInt(b.Y); okc {
		if _, isC := b.X.(*ssa.Const); isC {
			return nil, 0, false, false
		}
		x, c = stripConv(b.X), n
	} else if n, okc := constInt(b.X); okc {
		if _, isC := b.Y.(*ssa.Const); isC {
			return nil, 0, false, false
		}
		x, c = stripConv(b.Y), n
		op = mirror(op)
	} else {
		return nil, 0, false, false
	}
	switch op {
	case token.GEQ:
		return x, c, true, true
	case token.GTR:
		return x, c + 1, true, true
	case token.LSS:
		return x, c, false, true
	case token.LEQ:
		return x, c + 1, false, true
	}
	return nil, 0, false, false
}

func relConst(v ssa.Value) (ssa.Value, int64, bool) {
	x, k, ge, ok := relNorm(v)
	return x, k, ok && ge
}

func relConstNeg(v ssa.Value) (ssa.Value, int64, bool) {
	x, k, ge, ok := relNorm(v)
	return x, k, ok && !ge
}

var condRootCache = map[*ssa.Function]map[ssa.Value]int{}

// condRoots counts, per function, in how many branch conditions a value is tested (directly or
// as the non-constant side of an ==/!= comparison). Facts are only worth remembering for
// values tested at least twice.
func condRoots(fn *ssa.Function) map[ssa.Value]int {
	if m, ok := condRootCache[fn]; ok {
		return m
	}
	m := map[ssa.Value]int{}
	var add func(v ssa.Value, d int)
	add = func(v ssa.Value, d int) {
		if v == nil || d > 3 {
			return
		}
		v, _ = stripNot(v, true)
		if phi, ok := v.(*ssa.Phi); ok {
			for _, e := range phi.Edges {
				add(e, d+1)
			}
		}
		if x, _, _, ok := cmpConst(v); ok {
			m[x]++
		}
		if x, _, _, ok := relNorm(v); ok {
			m[x]++
			if phi, ok := x.(*ssa.Phi); ok {
				for _, e := range phi.Edges {
					m[stripConv(e)]++
				}
			}
		}
		m[v]++
	}
	for _, b := range fn.Blocks {
		if len(b.Instrs) == 0 {
			continue
		}
		if ifi, ok := b.Instrs[len(b.Instrs)-1].(*ssa.If); ok {
			add(ifi.Cond, 0)
		}
	}
	condRootCache[fn] = m
	return m
}

// learn extends the facts with what taking `branch` of cond tells.
func learn(f pfacts, cond ssa.Value, branch bool) pfacts {
	v, br := stripNot(cond, branch)
	if _, isConst := v.(*ssa.Const); isConst {
		return f
	}
	var roots map[ssa.Value]int
	isTemp := false
	if ins, ok := v.(ssa.Instruction); ok {
		if ins.Block() == nil {
			isTemp = true
		} else if ins.Parent() != nil {
			roots = condRoots(ins.Parent())
		}
	}
	// ordering between two non-constant values: learn the sign of their difference where the
	// function computes it (a < b  =>  b-a >= 1), enough to see that `for x := n; x > 0; x -= l`
	// with `if l >= x { break }` can only leave through the break
	if b, ok := v.(*ssa.BinOp); ok {
		if _, xc := b.X.(*ssa.Const); !xc {
			if _, yc := b.Y.(*ssa.Const); !yc {
				var hi, lo ssa.Value // hi - lo >= min
				min := int64(-1 << 62)
				switch {
				case (b.Op == token.LSS && br) || (b.Op == token.GEQ && !br): // X < Y
					hi, lo, min = b.Y, b.X, 1
				case (b.Op == token.GTR && br) || (b.Op == token.LEQ && !br): // X > Y
					hi, lo, min = b.X, b.Y, 1
				case (b.Op == token.LEQ && br) || (b.Op == token.GTR && !br): // X <= Y
					hi, lo, min = b.Y, b.X, 0
				case (b.Op == token.GEQ && br) || (b.Op == token.LSS && !br): // X >= Y
					hi, lo, min = b.X, b.Y, 0
				}
				if hi != nil {
					if refs := hi.Referrers(); refs != nil {
						for _, ref := range *refs {
							if d, ok := ref.(*ssa.BinOp); ok && d.Op == token.SUB && d.X == hi && d.Y == lo {
								f = f.with(pfact{d, 'g', min}) // pending until d is (re)computed
							}
						}
					}
				}
			}
		}
	}
	if x, k, ge, ok := relNorm(v); ok {
		if roots != nil && roots[x] < 2 {
			if isTemp || roots[v] < 2 {
				return f
			}
		} else {
			if ge == br {
				return f.with(pfact{x, 'G', k})
			}
			return f.with(pfact{x, 'L', k})
		}
	}
	if isTemp {
		if _, _, _, ok := cmpConst(v); !ok {
			return f
		}
	}
	if x, k, eq, ok := cmpConst(v); ok {
		if roots != nil && roots[x] < 2 && roots[v] < 2 {
			return f
		}
		if roots != nil && roots[x] < 2 {
			// the comparison value itself is re-tested: remember it as a boolean
			n := int64(0)
			if br {
				n = 1
			}
			return f.with(pfact{v, 'b', n})
		}
		if eq == br {
			return f.with(pfact{x, '=', k})
		}
		return f.with(pfact{x, '!', k})
	}
	if isBoolType(v.Type()) {
		if roots != nil && roots[v] < 2 {
			return f
		}
		n := int64(0)
		if br {
			n = 1
		}
		return f.with(pfact{v, 'b', n})
	}
	return f
}

type frame struct {
	call    *ssa.Call
	parent  *frame
	retB    *ssa.BasicBlock
	retI    int
	retPred int
	depth   int
}

func (f *frame) key() string {
	if f == nil {
		return ""
	}
	return fmt.Sprintf("%p>%s", f.call, f.parent.key())
}

func (f *frame) has(fn *ssa.Function) bool {
	for ; f != nil; f = f.parent {
		if f.call.Call.StaticCallee() == fn {
			return true
		}
	}
	return false
}

type sstate struct {
	b     *ssa.BasicBlock
	i     int
	pred  int
	from  int // index into nodes of the parent (for the trail)
	note  string
	facts pfacts
	stack *frame
}

const maxInlineDepth = 2

// substParams: inside a virtually inlined callee, a parameter tested by a branch is replaced by
// the argument of the call being followed.
func substParams(cond ssa.Value, st *frame) ssa.Value {
	if st == nil {
		return cond
	}
	arg := func(v ssa.Value) ssa.Value {
		p, ok := v.(*ssa.Parameter)
		if !ok {
			return v
		}
		for f := st; f != nil; f = f.parent {
			callee := f.call.Call.StaticCallee()
			if p.Parent() != callee {
				continue
			}
			for i, q := range callee.Params {
				if q == p && i < len(f.call.Call.Args) {
					return f.call.Call.Args[i]
				}
			}
		}
		return v
	}
	switch x := cond.(type) {
	case *ssa.Parameter:
		return arg(x)
	case *ssa.UnOp:
		if x.Op == token.NOT {
			if a := arg(x.X); a != x.X {
				return &ssa.UnOp{Op: token.NOT, X: a}
			}
		}
	case *ssa.BinOp:
		switch x.Op {
		case token.EQL, token.NEQ, token.LSS, token.LEQ, token.GTR, token.GEQ:
			a, b := arg(x.X), arg(x.Y)
			if a != x.X || b != x.Y {
				return &ssa.BinOp{Op: x.Op, X: a, Y: b}
			}
		}
	}
	return cond
}

// Find searches for a path from any start to an instruction satisfying target (or, when
// exitIsTarget, to a function exit) that does not pass through a Stop instruction or a cut edge.
// It returns nil when no such path exists.
//
// Calls to module-local helper functions that contain an instruction the search cares about
// (one that target, Stop, Interest or CutEdge would react to) are followed into the callee and
// back ("virtual inlining", depth <= 2), so extracting a few statements into a helper does not
// change any verdict.
func (s *Search) Find(starts []Start, target func(ins ssa.Instruction) bool, exitIsTarget bool) *Witness {
	type key struct {
		b     *ssa.BasicBlock
		pred  int
		facts string
		stack string
	}
	seen := map[key]bool{}
	var nodes []sstate
	for _, st := range starts {
		nodes = append(nodes, sstate{st.B, st.I, st.Pred, -1, fmt.Sprintf("start b%d", st.B.Index), st.F, nil})
	}
	trail := func(n int) []string {
		var out []string
		for n >= 0 {
			if nodes[n].note != "" {
				out = append(out, nodes[n].note)
			}
			n = nodes[n].from
		}
		for i, j := 0, len(out)-1; i < j; i, j = i+1, j-1 {
			out[i], out[j] = out[j], out[i]
		}
		return out
	}
	wants := map[*ssa.Function]bool{}
	var wantsInline func(fn *ssa.Function, depth int) bool
	wantsInline = func(fn *ssa.Function, depth int) bool {
		if v, ok := wants[fn]; ok {
			return v
		}
		wants[fn] = false
		res := false
		for _, b := range fn.Blocks {
			for _, ins := range b.Instrs {
				if res {
					break
				}
				if _, isRet := ins.(*ssa.Return); isRet {
					continue // a helper's return is not an exit of the analysed function
				}
				if target != nil && target(ins) {
					res = true
				}
				if s.Stop != nil && s.Stop(ins) {
					res = true
				}
				for _, in := range s.Interest {
					if in(ins) {
						res = true
					}
				}
				if ifi, ok := ins.(*ssa.If); ok && s.CutEdge != nil {
					if s.CutEdge(ifi, ifi.Cond, true) || s.CutEdge(ifi, ifi.Cond, false) {
						res = true
					}
				}
				if c, ok := ins.(*ssa.Call); ok && depth < maxInlineDepth {
					if cal := c.Call.StaticCallee(); cal != nil && cal != fn && cal.Blocks != nil && cal.Pkg != nil && isModulePkg(cal.Pkg.Pkg) {
						if wantsInline(cal, depth+1) {
							res = true
						}
					}
				}
			}
		}
		wants[fn] = res
		return res
	}
	for q := 0; q < len(nodes); q++ {
		if len(nodes) > 400000 {
			broken("path search exploded in %s", s.Fn.Name())
		}
		n := nodes[q]
		if n.i == 0 {
			k := key{n.b, n.pred, n.facts.key(), n.stack.key()}
			if seen[k] {
				continue
			}
			seen[k] = true
		}
		facts := n.facts
	instrs:
		for i := n.i; i < len(n.b.Instrs); i++ {
			ins := n.b.Instrs[i]
			s.Visited++
			_, isRet := ins.(*ssa.Return)
			innerRet := isRet && n.stack != nil
			if s.OnVisit != nil && !innerRet {
				s.OnVisit(ins)
			}
			if target != nil && !innerRet && target(ins) {
				return &Witness{Target: ins, Trail: trail(q)}
			}
			if s.Stop != nil && !innerRet && s.Stop(ins) {
				break
			}
			if v, ok := ins.(ssa.Value); ok && len(facts) > 0 {
				facts = facts.without(v) // redefinition (next loop iteration): forget what was known
			}
			switch t := ins.(type) {
			case *ssa.Phi:
				// a boolean merged from the branches taken (b := x || y): on this path it has the value of the edge we came by
				if bt, ok := t.Type().Underlying().(*types.Basic); ok && bt.Kind() == types.Bool && n.i == 0 && n.pred >= 0 && n.pred < len(t.Edges) {
					assumed := false
					if s.Assume != nil {
						_, assumed = s.Assume(t) // the rule speaks about this variable itself: leave it to the rule
					}
					if val, known := s.evalBool(substParams(t.Edges[n.pred], n.stack), facts); known && !assumed {
						k := int64(0)
						if val {
							k = 1
						}
						facts = append(append(pfacts{}, facts...), pfact{t, 'b', k})
					}
				}
			case *ssa.Call:
				if s.NoInline {
					break
				}
				cal := t.Call.StaticCallee()
				depth := 0
				if n.stack != nil {
					depth = n.stack.depth
				}
				if cal == nil || cal.Blocks == nil || cal.Pkg == nil || !isModulePkg(cal.Pkg.Pkg) || depth >= maxInlineDepth || cal == s.Fn || n.stack.has(cal) {
					break
				}
				if !wantsInline(cal, depth+1) {
					break
				}
				fr := &frame{call: t, parent: n.stack, retB: n.b, retI: i + 1, retPred: n.pred, depth: depth + 1}
				nodes = append(nodes, sstate{cal.Blocks[0], 0, -1, q, "into " + cal.Name(), facts, fr})
				break instrs
			case *ssa.Return:
				if n.stack != nil {
					fr := n.stack
					nodes = append(nodes, sstate{fr.retB, fr.retI, fr.retPred, q, "back from " + fr.call.Call.StaticCallee().Name(), facts, fr.parent})
					break instrs
				}
				if exitIsTarget {
					return &Witness{Exit: ins, Trail: trail(q)}
				}
			case *ssa.Panic:
				if exitIsTarget && s.PanicIsExit && n.stack == nil {
					return &Witness{Exit: ins, Trail: trail(q)}
				}
			case *ssa.Jump:
				succ := n.b.Succs[0]
				nodes = append(nodes, sstate{succ, 0, predIndex(succ, n.b, 0), q, "", facts, n.stack})
			case *ssa.If:
				cond := substPhiOperands(resolvePhi(t.Cond, n.b, n.pred), n.b, n.pred)
				cond = substParams(cond, n.stack)
				val, known := s.evalBool(cond, facts)
				for k, succ := range n.b.Succs {
					branch := k == 0
					if known && val != branch {
						continue
					}
					if s.CutEdge != nil && s.CutEdge(t, cond, branch) {
						continue
					}
					nodes = append(nodes, sstate{succ, 0, predIndex(succ, n.b, k), q,
						fmt.Sprintf("b%d:%s=%v", n.b.Index, shortVal(cond), branch), learn(facts, cond, branch), n.stack})
				}
			}
		}
	}
	return nil
}

func shortVal(v ssa.Value) string {
	switch x := v.(type) {
	case *ssa.Call:
		return callDesc(&x.Call)
	case *ssa.UnOp:
		if x.Op == token.NOT {
			return "!" + shortVal(x.X)
		}
		if x.Op == token.MUL {
			return "*" + shortVal(x.X)
		}
	case *ssa.BinOp:
		return shortVal(x.X) + x.Op.String() + shortVal(x.Y)
	case *ssa.Const:
		if x.Value == nil {
			return "nil"
		}
		return x.Value.String()
	case *ssa.FieldAddr, *ssa.Field, *ssa.Parameter, *ssa.FreeVar, *ssa.Alloc:
		return pathOf(v)
	case *ssa.Phi:
		return "phi(" + x.Comment + ")"
	case *ssa.Extract:
		return fmt.Sprintf("%s#%d", shortVal(x.Tuple), x.Index)
	case *ssa.TypeAssert:
		return shortVal(x.X) + ".(" + types.TypeString(x.AssertedType, func(p *types.Package) string { return "" }) + ")"
	case *ssa.ChangeInterface:
		return shortVal(x.X)
	case *ssa.MakeInterface:
		return shortVal(x.X)
	}
	return v.Name()
}

func callDesc(cc *ssa.CallCommon) string {
	if cc.IsInvoke() {
		return cc.Method.Name() + "()"
	}
	if f := cc.StaticCallee(); f != nil {
		name := f.Name()
		var args []string
		for _, a := range cc.Args {
			if c, ok := a.(*ssa.Const); ok && c.Value != nil {
				args = append(args, c.Value.String())
			}
		}
		return name + "(" + strings.Join(args, ",") + ")"
	}
	return shortVal(cc.Value) + "()"
}

// ---------------------------------------------------------------------------------------------
// Access paths: a stable textual name for "the same storage" (c, c.operator, b.read.buf ...).
// ---------------------------------------------------------------------------------------------

func pathOf(v ssa.Value) string {
	switch x := v.(type) {
	case *ssa.Parameter:
		return x.Name()
	case *ssa.FreeVar:
		return x.Name()
	case *ssa.Alloc:
		if x.Comment != "" {
			return x.Comment
		}
		return x.Name()
	case *ssa.Global:
		return x.Name()
	case *ssa.UnOp:
		if x.Op == token.MUL {
			return pathOf(x.X) // a load names the cell it reads
		}
	case *ssa.FieldAddr:
		return pathOf(x.X) + "." + fieldName(x.X.Type(), x.Field)
	case *ssa.Field:
		return pathOf(x.X) + "." + fieldName(x.X.Type(), x.Field)
	case *ssa.IndexAddr:
		return pathOf(x.X) + "[" + shortIdx(x.Index) + "]"
	case *ssa.Index:
		return pathOf(x.X) + "[" + shortIdx(x.Index) + "]"
	case *ssa.ChangeType:
		return pathOf(x.X)
	case *ssa.Convert:
		return pathOf(x.X)
	case *ssa.ChangeInterface:
		return pathOf(x.X)
	case *ssa.MakeInterface:
		return pathOf(x.X)
	case *ssa.Phi:
		return "phi:" + x.Comment
	case *ssa.Call:
		return callDesc(&x.Call)
	case *ssa.Extract:
		return fmt.Sprintf("%s#%d", pathOf(x.Tuple), x.Index)
	case *ssa.Const:
		if x.Value == nil {
			return "nil"
		}
		return x.Value.String()
	case *ssa.Slice:
		return pathOf(x.X) + "[:]"
	}
	return v.Name()
}

func shortIdx(v ssa.Value) string {
	if c, ok := v.(*ssa.Const); ok && c.Value != nil {
		return c.Value.String()
	}
	return pathOf(v)
}

func fieldName(t types.Type, idx int) string {
	if p, ok := t.Underlying().(*types.Pointer); ok {
		t = p.Elem()
	}
	if st, ok := t.Underlying().(*types.Struct); ok && idx < st.NumFields() {
		return st.Field(idx).Name()
	}
	return fmt.Sprintf("f%d", idx)
}

// fieldOf reports the struct type name and field name addressed by a FieldAddr / Field.
func fieldOf(v ssa.Value) (typ, field string, base ssa.Value, ok bool) {
	var t types.Type
	var idx int
	switch x := v.(type) {
	case *ssa.FieldAddr:
		t, idx, base = x.X.Type(), x.Field, x.X
	case *ssa.Field:
		t, idx, base = x.X.Type(), x.Field, x.X
	default:
		return "", "", nil, false
	}
	if p, ok := t.Underlying().(*types.Pointer); ok {
		t = p.Elem()
	}
	name := ""
	if n, ok := types.Unalias(t).(*types.Named); ok {
		name = n.Obj().Name()
	}
	return name, fieldName(t, idx), base, true
}

// ---------------------------------------------------------------------------------------------
// Call helpers
// ---------------------------------------------------------------------------------------------

func callCommon(ins ssa.Instruction) *ssa.CallCommon {
	switch x := ins.(type) {
	case *ssa.Call:
		return &x.Call
	case *ssa.Defer:
		return &x.Call
	case *ssa.Go:
		return &x.Call
	}
	return nil
}

// calleeOf resolves the static callee of a call instruction (nil for dynamic calls).
func calleeOf(ins ssa.Instruction) *ssa.Function {
	cc := callCommon(ins)
	if cc == nil {
		return nil
	}
	return cc.StaticCallee()
}

// isCall reports whether ins is a plain (not go/defer) call of fn.
func isCall(ins ssa.Instruction, fn *ssa.Function) bool {
	c, ok := ins.(*ssa.Call)
	return ok && fn != nil && c.Call.StaticCallee() == fn
}

// isCallOrDefer reports a call or a defer of fn.
func isCallOrDefer(ins ssa.Instruction, fn *ssa.Function) bool {
	switch x := ins.(type) {
	case *ssa.Call:
		return fn != nil && x.Call.StaticCallee() == fn
	case *ssa.Defer:
		return fn != nil && x.Call.StaticCallee() == fn
	}
	return false
}

// argConst returns the integer constant passed as the i-th *declared* parameter
// (receiver excluded) of a static call.
func argConst(cc *ssa.CallCommon, i int) (int64, bool) {
	args := cc.Args
	if f := cc.StaticCallee(); f != nil && f.Signature.Recv() != nil {
		args = args[1:]
	}
	if i >= len(args) {
		return 0, false
	}
	return constInt(args[i])
}

func argVal(cc *ssa.CallCommon, i int) ssa.Value {
	args := cc.Args
	if f := cc.StaticCallee(); f != nil && f.Signature.Recv() != nil {
		args = args[1:]
	}
	if i >= len(args) {
		return nil
	}
	return args[i]
}

func recvVal(cc *ssa.CallCommon) ssa.Value {
	if cc.IsInvoke() {
		return cc.Value
	}
	if f := cc.StaticCallee(); f != nil && f.Signature.Recv() != nil && len(cc.Args) > 0 {
		return cc.Args[0]
	}
	return nil
}

func constInt(v ssa.Value) (int64, bool) {
	for {
		switch x := v.(type) {
		case *ssa.Convert:
			v = x.X
			continue
		case *ssa.ChangeType:
			v = x.X
			continue
		}
		break
	}
	c, ok := v.(*ssa.Const)
	if !ok || c.Value == nil {
		return 0, false
	}
	if c.Value.Kind() == constant.Bool {
		if constant.BoolVal(c.Value) {
			return 1, true
		}
		return 0, true
	}
	if c.Value.Kind() != constant.Int {
		return 0, false
	}
	n, ok := constant.Int64Val(c.Value)
	return n, ok
}

func isNilConst(v ssa.Value) bool {
	c, ok := v.(*ssa.Const)
	return ok && c.Value == nil
}

// namedTypeName returns the name of v's (possibly pointer-to) named type.
func namedTypeName(t types.Type) string {
	if p, ok := t.Underlying().(*types.Pointer); ok && !isNamed(t) {
		t = p.Elem()
	}
	if n, ok := types.Unalias(t).(*types.Named); ok {
		return n.Obj().Name()
	}
	return ""
}

func isNamed(t types.Type) bool {
	_, ok := types.Unalias(t).(*types.Named)
	return ok
}

// dynCallKind classifies a dynamic call: "type:OnRequest" (value of a named func type),
// "field:FDOperator.OnHup" (func-typed struct field), "invoke:Poll.Control" (interface method).
func dynCallKinds(cc *ssa.CallCommon) []string {
	var out []string
	if cc.IsInvoke() {
		out = append(out, "invoke:"+namedTypeName(cc.Value.Type())+"."+cc.Method.Name())
		return out
	}
	if cc.StaticCallee() != nil {
		return nil
	}
	v := cc.Value
	if n := namedTypeName(v.Type()); n != "" {
		if _, ok := v.Type().Underlying().(*types.Signature); ok {
			out = append(out, "type:"+n)
		}
	}
	// a load of a struct field
	if u, ok := v.(*ssa.UnOp); ok && u.Op == token.MUL {
		if tn, fn, _, ok := fieldOf(u.X); ok {
			out = append(out, "field:"+tn+"."+fn)
		}
		if g, ok := u.X.(*ssa.Global); ok {
			out = append(out, "global:"+g.Pkg.Pkg.Name()+"."+g.Name())
		}
	}
	if f, ok := v.(*ssa.Field); ok {
		if tn, fn, _, ok := fieldOf(f); ok {
			out = append(out, "field:"+tn+"."+fn)
		}
	}
	// index into a slice of funcs loaded from a field (onhups[i](p))
	if u, ok := v.(*ssa.UnOp); ok && u.Op == token.MUL {
		if ia, ok := u.X.(*ssa.IndexAddr); ok {
			out = append(out, "elem:"+pathOf(ia.X))
		}
	}
	if len(out) == 0 {
		out = append(out, "dyn:"+pathOf(v))
	}
	return out
}

// forEachIns visits every instruction of fn.
func forEachIns(fn *ssa.Function, f func(ins ssa.Instruction)) {
	for _, b := range fn.Blocks {
		for _, ins := range b.Instrs {
			f(ins)
		}
	}
}

// reachableBlocks returns the set of blocks reachable from entry (go/ssa already prunes, but
// recover blocks are separate).
func allIns(fn *ssa.Function) []ssa.Instruction {
	var out []ssa.Instruction
	forEachIns(fn, func(i ssa.Instruction) { out = append(out, i) })
	return out
}

// closuresIn returns the anonymous functions created (directly) inside fn, in order.
func closuresIn(fn *ssa.Function) []*ssa.Function { return fn.AnonFuncs }

// makeClosureFn returns the function behind a value that is a closure or a function constant.
func makeClosureFn(v ssa.Value) *ssa.Function {
	switch x := v.(type) {
	case *ssa.MakeClosure:
		if f, ok := x.Fn.(*ssa.Function); ok {
			return f
		}
	case *ssa.Function:
		return x
	case *ssa.ChangeType:
		return makeClosureFn(x.X)
	case *ssa.MakeInterface:
		return makeClosureFn(x.X)
	case *ssa.UnOp:
		// load of a local cell assigned exactly once with a closure
		if x.Op == token.MUL {
			if a, ok := x.X.(*ssa.Alloc); ok {
				var st *ssa.Store
				n := 0
				for _, r := range *a.Referrers() {
					if s, ok := r.(*ssa.Store); ok && s.Addr == a {
						st = s
						n++
					}
				}
				if n == 1 {
					return makeClosureFn(st.Val)
				}
			}
		}
	}
	return nil
}

// substPhiOperands: a comparison whose operand is a phi of the current block is evaluated with
// the value that flows in from the predecessor actually taken (loop-entry tests like
// `for ack := n; ack >= 0` become `n >= 0` on the entry edge).
func substPhiOperands(cond ssa.Value, blk *ssa.BasicBlock, pred int) ssa.Value {
	b, ok := cond.(*ssa.BinOp)
	if !ok || pred < 0 {
		return cond
	}
	switch b.Op {
	case token.EQL, token.NEQ, token.LSS, token.LEQ, token.GTR, token.GEQ:
	default:
		return cond
	}
	x, y := resolvePhi(b.X, blk, pred), resolvePhi(b.Y, blk, pred)
	if x == b.X && y == b.Y {
		return cond
	}
	return &ssa.BinOp{Op: b.Op, X: x, Y: y}
}
