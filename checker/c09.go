package main

import (
	"fmt"
	"go/token"

	"golang.org/x/tools/go/ssa"
)

func init() {
	register("C09",
		"Decides the structural premises of the callback order: OnPrepare is invoked only in onPrepare and never after registration; a connection operator is registered (PollReadable) only by register(), which only onPrepare calls, last in init; OnConnect runs only for the winner of the none->connected CAS and under the processing lock, OnRequest under the same lock and deferred while OnConnect is unfinished; every OnDisconnect invocation is guarded by the connected->disconnected CAS or is the single call of the no-OnConnect branch, which is unconditional; after the connect task releases the connecting lock its first action is to re-read the closing state and help with OnDisconnect (hand-off with the poller that gave up); onHup runs onDisconnect before the callback runner; after the callback runner no user callback is reachable in any flow. The OnConnect/OnDisconnect options reach their setters; the handler task calls onDisconnect() before it runs the callbacks of a peer-closed connection (open finding F17). Not decided: exactly-once of OnDisconnect under all schedules beyond these premises.",
		[]string{"sync/atomic is linearizable", "onHup is invoked at most once per connection (C11: hang-up reported once)"},
		func(r *Run) {
			cfgs := []string{"linux"}
			if r.Tier == "thorough" {
				cfgs = []string{"linux", "linux-race", "darwin"}
			}
			for _, c := range cfgs {
				if r.useOpt(c) == nil {
					continue
				}
				c09(r)
			}
		})
}

func nilCmpOfType(typeName string, wantNil bool) func(ssa.Value) (bool, bool) {
	return func(v ssa.Value) (bool, bool) {
		b, ok := v.(*ssa.BinOp)
		if !ok || (b.Op != token.EQL && b.Op != token.NEQ) {
			return false, false
		}
		for _, side := range [][2]ssa.Value{{b.X, b.Y}, {b.Y, b.X}} {
			if namedTypeName(side[0].Type()) == typeName && isNilConst(side[1]) {
				return (b.Op == token.EQL) == wantNil, true
			}
		}
		return false, false
	}
}

func assumeOf(fs ...func(ssa.Value) (bool, bool)) func(ssa.Value) (bool, bool) {
	return func(v ssa.Value) (bool, bool) {
		for _, f := range fs {
			if pol, ok := f(v); ok {
				return pol, true
			}
		}
		return false, false
	}
}

func c09(r *Run) {
	w := r.W
	r.optionPlumbed("C09.R1:onconnect-option-installed", "the OnConnect callback configured on the event loop is the one installed on its connections", "WithOnConnect", "(*connection).SetOnConnect")
	r.optionPlumbed("C09.R1:ondisconnect-option-installed", "the OnDisconnect callback configured on the event loop is the one installed on its connections", "WithOnDisconnect", "(*connection).SetOnDisconnect")
	ro := r.roles()
	px := protoEffects(w)
	onPrepare := w.MustFn("(*connection).onPrepare")
	register := w.MustFn("(*connection).register")
	initFn := w.MustFn("(*connection).init")
	chg := w.MustFn("(*connection).changeState")
	stNone, stConn, stDis := w.ConstInt("connStateNone"), w.ConstInt("connStateConnected"), w.ConstInt("connStateDisconnected")
	kC := ro.kConnecting

	// ---- R1 prepare before events ---------------------------------------------------------------
	nPrep := 0
	for _, fn := range w.Funcs {
		for _, site := range findIns(fn, func(i ssa.Instruction) bool { return userCallbackKind(i) == "OnPrepare" }) {
			nPrep++
			r.ob("C09.R1:who-prepares:"+w.FnName(fn), "OnPrepare is invoked only by onPrepare", fn, site, fn == onPrepare, "in "+w.FnName(fn), false)
		}
	}
	if nPrep == 0 {
		r.absentf(" C09: no OnPrepare invocation found")
	}
	regSites := callSitesOf(w, register)
	if len(regSites) == 0 {
		r.absentf(" C09: register() is never called")
	}
	for _, site := range regSites {
		fn := site.Parent()
		r.ob("C09.R1:who-registers:"+w.FnName(fn), "register() is called only from onPrepare", fn, site, fn == onPrepare, "caller "+w.FnName(fn), false)
		r.neverReach("C09.R1:no-prepare-after-register:"+siteKey(w, site), "once the connection is registered with the poller OnPrepare can no longer run (it finished before events can arrive)", fn, site, []Start{After(site)},
			func(i ssa.Instruction) bool { return userCallbackKind(i) == "OnPrepare" }, nil, nil, nil, "no OnPrepare reachable after register()")
		// options (callbacks, timeouts) are installed before registration too
		for _, setter := range []string{"SetOnRequest", "SetOnConnect", "SetOnDisconnect"} {
			sf := w.MustFn("(*connection)." + setter)
			r.neverReach("C09.R1:"+setter+"-before-register", "the option callbacks are installed before the connection can receive events", fn, site, []Start{After(site)},
				func(i ssa.Instruction) bool { return isCall(i, sf) }, nil, nil, nil, "no "+setter+" after register()")
		}
		r.guarded("C09.R1:register-only-if-active:"+siteKey(w, site), "a connection that OnPrepare closed is not registered", fn, site, callResultAtom(ro.isActive, true), nil, "guarded by IsActive()")
	}
	// PollReadable on a connection's operator only in register()
	for _, site := range callSitesOf(w, ro.opControl) {
		ev, ok := argConst(callCommon(site), 0)
		if !ok || ev != ro.evReadable {
			continue
		}
		fn := site.Parent()
		base := pathOf(recvVal(callCommon(site)))
		isConnOp := len(base) >= 9 && base[len(base)-9:] == ".operator" && fn.Signature.Recv() != nil && isPointerToNamed(fn.Signature.Recv().Type(), "connection")
		if isConnOp {
			r.ob("C09.R1:who-arms-connection:"+w.FnName(fn), "a connection's operator is armed for reading only by register()", fn, site, fn == register, "in "+w.FnName(fn), false)
		}
	}
	// onPrepare is the last step of init (buffers, operator and finalizer exist before user code sees the connection)
	for _, site := range findIns(initFn, func(i ssa.Instruction) bool { return isCall(i, onPrepare) }) {
		for _, pre := range []string{"(*connection).initFDOperator", "(*connection).initFinalizer", "(*connection).initNetFD"} {
			pf := w.MustFn(pre)
			r.precedes("C09.R1:init-order:"+pf.Name(), "the connection is fully built before OnPrepare/registration", initFn, site, func(i ssa.Instruction) bool { return isCall(i, pf) }, nil, pf.Name()+" dominates onPrepare")
		}
	}

	// ---- R2 connect before request (shared with C06.R1/R5) --------------------------------------
	{
		fn := ro.onRequestM
		getState := w.MustFn("(*connection).getState")
		stateNotNone := cmpAtom(isCallOf(getState), isConstEq(stNone), neqRel)
		isOnConnLoad := func(v ssa.Value) bool {
			c, ok := v.(*ssa.Call)
			if !ok {
				return false
			}
			a := asAtomic(c)
			return a != nil && a.Op == "Load" && structFieldOfAddr(a.Addr) == "onEvent.onConnectCallback"
		}
		onConnUnset := cmpAtom(isOnConnLoad, isNilConst, eqRel)
		for _, site := range findIns(fn, func(i ssa.Instruction) bool { return isCall(i, ro.onProcess) }) {
			r.guarded("C09.R2:request-waits-for-connect", "the poller starts OnRequest only when OnConnect has finished (state != none) or none is installed", fn, site, anyAtom(stateNotNone, onConnUnset), nil, "guarded by state!=none | onConnect==nil")
		}
		// in the task: OnRequest invocations come after the OnConnect section: from an OnRequest call no path leads to OnConnect
		for _, site := range findIns(ro.task, func(i ssa.Instruction) bool { return userCallbackKind(i) == "OnRequest" }) {
			r.neverReach("C09.R2:no-connect-after-request:"+siteKey(w, site), "OnConnect never starts after an OnRequest in the same task", ro.task, site, []Start{After(site)},
				func(i ssa.Instruction) bool { return userCallbackKind(i) == "OnConnect" }, nil, nil, nil, "no OnConnect reachable")
		}
		for _, site := range findIns(ro.task, func(i ssa.Instruction) bool { return userCallbackKind(i) == "OnConnect" }) {
			r.guarded("C09.R2:connect-once", "OnConnect runs only for the winner of the none->connected CAS", ro.task, site, callResultAtom(chg, true, stNone, stConn), nil, "guarded by changeState(none,connected)")
		}
		// onConnect(): without a callback the state still becomes connected; with one, the connecting lock is taken before the task
		fnc := ro.onConnectM
		for _, site := range findIns(fnc, func(i ssa.Instruction) bool { return isCall(i, ro.onProcess) }) {
			r.guarded("C09.R2:connecting-lock-before-task", "the connect task is started only after taking the connecting lock (the poller's onDisconnect defers to its holder)", fnc, site, callResultAtom(ro.lock, true, kC), nil, "guarded by lock(connecting)")
		}
	}

	// the state machine starts in none (OnConnect can win its CAS exactly once)
	{
		ok := false
		forEachIns(initFn, func(i ssa.Instruction) {
			if st, isSt := i.(*ssa.Store); isSt && isStoreToField(i, "connection", "state") {
				k, okc := constInt(st.Val)
				ok = okc && k == stNone
			}
		})
		// no store at all is fine too (zero value) as long as none == 0
		none0 := stNone == 0
		has := len(findIns(initFn, func(i ssa.Instruction) bool { return isStoreToField(i, "connection", "state") })) > 0
		r.ob("C09.R2:state-starts-none", "a new connection starts in state none", initFn, nil, ok || (!has && none0), "c.state = connStateNone", false)
		// state is only ever changed by the three transitions
		for _, site := range callSitesOf(w, chg) {
			a, okA := argConst(callCommon(site), 0)
			b, okB := argConst(callCommon(site), 1)
			legal := okA && okB && ((a == stNone && b == stConn) || (a == stConn && b == stDis))
			r.ob("C09.R2:legal-transition:"+siteKey(w, site), "the connection state only moves none->connected->disconnected", site.Parent(), site, legal, fmt.Sprintf("changeState(%d,%d)", a, b), false)
		}
	}

	// ---- R3 disconnect at most once, after connect -----------------------------------------------
	casDis := callResultAtom(chg, true, stConn, stDis)
	nDis := 0
	for _, fn := range w.Funcs {
		for _, site := range findIns(fn, func(i ssa.Instruction) bool { return userCallbackKind(i) == "OnDisconnect" }) {
			nDis++
			ss := &Search{Fn: fn, CutEdge: cutOn(casDis)}
			wit := ss.Find([]Start{Entry(fn)}, isIns(site), false)
			r.Visited += ss.Visited
			if wit == nil {
				r.ob("C09.R3:disconnect-guarded:"+siteKey(w, site), "OnDisconnect is invoked by the winner of the connected->disconnected CAS", fn, site, true, "guarded by changeState(connected,disconnected)", true)
				continue
			}
			// otherwise it must be the no-OnConnect branch of onDisconnect()
			ok := fn == ro.onDisconnectM
			if ok {
				okb := r.guardedQuiet(fn, site, nilCmpOfType("OnConnect", true))
				ok = okb
			}
			r.ob("C09.R3:disconnect-guarded:"+siteKey(w, site), "OnDisconnect is invoked by the winner of the connected->disconnected CAS, or in the branch where no OnConnect is installed (called once per hang-up)", fn, site, ok, "no-OnConnect branch of onDisconnect()", true)
		}
	}
	if nDis < 2 {
		r.absentf(" C09: %d OnDisconnect invocation sites", nDis)
	}
	// who calls onDisconnect(): onHup and the connect task
	for _, site := range callSitesOf(w, ro.onDisconnectM) {
		fn := site.Parent()
		r.ob("C09.R3:who-disconnects:"+w.FnName(fn), "onDisconnect() is called by onHup and by the connect task only", fn, site, fn == ro.onHup || fn == ro.task, "caller "+w.FnName(fn), false)
	}
	// in onDisconnect(): with a handler but no OnConnect, the callback runs unconditionally
	{
		fn := ro.onDisconnectM
		as := assumeOf(nilCmpOfType("OnDisconnect", false), nilCmpOfType("OnConnect", true))
		r.mustPass("C09.R4:no-onconnect-always-disconnects", "without an OnConnect callback a hang-up always invokes OnDisconnect (there is no connect task that could help later)", fn, nil, []Start{Entry(fn)},
			func(i ssa.Instruction) bool { return userCallbackKind(i) == "OnDisconnect" }, nil, as, "OnDisconnect on every path (onDisconnect!=nil, onConnect==nil)")
		// with OnConnect finished (state != none) and the lock obtained, the CAS winner invokes it and the lock is released
		okEdges := edgesEstablishing(fn, callResultAtom(ro.lock, true, kC))
		r.mustPass("C09.R4:poller-releases-connecting", "the poller releases the connecting lock it took for OnDisconnect", fn, nil, okEdges,
			func(i ssa.Instruction) bool { return isKeyCall(i, ro.unlock, kC) }, nil, nil, "unlock(connecting) on every path")
		casEdges := edgesEstablishing(fn, casDis)
		r.mustPass("C09.R4:cas-winner-disconnects", "the winner of the connected->disconnected CAS invokes OnDisconnect", fn, nil, casEdges,
			func(i ssa.Instruction) bool { return userCallbackKind(i) == "OnDisconnect" }, nil, nil, "OnDisconnect on every path from the CAS success edge")
	}

	// ---- R4 disconnect is not lost: unlock(connecting) -> re-read -> help ------------------------
	{
		unl := findIns(ro.task, func(i ssa.Instruction) bool {
			_, isC := i.(*ssa.Call)
			return isC && isKeyCall(i, ro.unlock, kC)
		})
		if len(unl) == 0 {
			r.ob("C09.R4:connect-task:unlocks-connecting", "the connect task releases the connecting lock", ro.task, nil, false, "no unlock(connecting)", false)
		}
		readsClosing := func(i ssa.Instruction) bool { return px.Must(i, "readClosing") }
		closed := closedFact(ro)
		for i, u := range unl {
			key := ""
			if i > 0 {
				key = ordinal(i)
			}
			// first re-read after the release
			ss := &Search{Fn: ro.task, Stop: readsClosing}
			first := ss.Reachable([]Start{After(u)}, readsClosing)
			r.Visited += ss.Visited
			// nothing else of consequence happens before that re-read: no user callback, no exit
			ss2 := &Search{Fn: ro.task, Stop: readsClosing}
			wit := ss2.Find([]Start{After(u)}, func(x ssa.Instruction) bool { return px.May(x, "usercb") }, true)
			r.Visited += ss2.Visited
			r.obW("C09.R4:connect-task:reread-after-unlock(connecting)"+key, "after unlock(connecting) the connect task first re-reads the closing state: a poller whose onDisconnect() failed to take the lock relies on the task to deliver OnDisconnect", ro.task, u, wit, "closing re-read directly after the unlock")
			// whenever the task goes on without helping, it has seen the connection ACTIVE (not merely "not closed by the
			// poller": a peer close followed by the user's own Close inside OnConnect still owes an OnDisconnect)
			{
				helps := func(x ssa.Instruction) bool {
					if isCall(x, ro.onDisconnectM) {
						return true
					}
					c, ok := x.(*ssa.Call)
					return ok && isCallOf(chg, stConn, stDis)(c)
				}
				ss3 := &Search{Fn: ro.task, Stop: helps, CutEdge: cutOn(activeFact(ro))}
				wit3 := ss3.Find([]Start{After(u)}, func(x ssa.Instruction) bool {
					return userCallbackKind(x) == "OnRequest" || isCall(x, ro.closeCallback) || isKeyCall(x, ro.unlock, ro.kProcessing)
				}, true)
				r.Visited += ss3.Visited
				r.obW("C09.R4:connect-task:no-help-only-if-active"+key, "after unlock(connecting) the task continues without delivering OnDisconnect only on an edge where it observed the connection active - any kind of close (by the peer, or by the peer and then the user) is helped", ro.task, u, wit3, "onDisconnect()/CAS, or an active observation, on every path")
			}
			var starts []Start
			for _, e := range edgesEstablishing(ro.task, closed) {
				if condUsesAny(edgeCond(e), first) {
					starts = append(starts, e)
				}
			}
			r.mustPass("C09.R4:connect-task:help-after-reread"+key, "when that re-read finds the connection closed the task calls onDisconnect() (CAS-protected, so at most one of poller and task delivers it)", ro.task, u, starts,
				func(x ssa.Instruction) bool {
					// either through onDisconnect() or by competing for the connected->disconnected CAS directly
					if isCall(x, ro.onDisconnectM) {
						return true
					}
					c, ok := x.(*ssa.Call)
					return ok && isCallOf(chg, stConn, stDis)(c)
				}, nil, nil, "onDisconnect() (or the connected->disconnected CAS) on every path from the closed edge")
		}
		// the lock is released on every path after OnConnect ran
		for _, site := range findIns(ro.task, func(i ssa.Instruction) bool { return userCallbackKind(i) == "OnConnect" }) {
			r.mustPass("C09.R4:connect-task:releases-connecting", "the connect task releases the connecting lock after OnConnect on every path", ro.task, site, []Start{After(site)},
				func(x ssa.Instruction) bool { return isKeyCall(x, ro.unlock, kC) }, nil, nil, "unlock(connecting) on every path")
		}
	}

	// ---- R5 disconnect before close callbacks; close callbacks last ------------------------------
	for _, site := range findIns(ro.onHup, func(i ssa.Instruction) bool { return isCall(i, ro.closeCallback) }) {
		r.precedes("C09.R5:disconnect-before-callbacks", "on hang-up onDisconnect() runs before the close callbacks are attempted", ro.onHup, site, func(i ssa.Instruction) bool { return isCall(i, ro.onDisconnectM) }, nil, "onDisconnect() dominates closeCallback")
	}
	{
		starts := edgesEstablishing(ro.onHup, callResultAtom(ro.closeBy, true))
		r.mustPass("C09.R5:hup-always-disconnects", "a hang-up that wins closeBy(poller) always calls onDisconnect()", ro.onHup, nil, starts, func(i ssa.Instruction) bool { return isCall(i, ro.onDisconnectM) }, nil, nil, "onDisconnect() on every path")
	}
	for _, site := range callSitesOf(w, ro.closeCallback) {
		fn := site.Parent()
		bad := func(i ssa.Instruction) bool {
			if _, isCall := i.(*ssa.Call); !isCall {
				return false
			}
			for _, k := range []string{"usercb:OnRequest", "usercb:OnConnect", "usercb:OnDisconnect", "usercb:OnPrepare"} {
				if px.May(i, k) {
					return true
				}
			}
			return false
		}
		r.neverReach("C09.R5:callbacks-last:"+siteKey(w, site), "after the close callbacks were run no other user callback can start in that flow", fn, site, []Start{After(site)}, bad, nil, nil, nil, "no user callback reachable")
	}
	// in the connect task the help (and the task's own disconnect) precede the callback runner
	for _, site := range findIns(ro.task, func(i ssa.Instruction) bool {
		return userCallbackKind(i) == "OnDisconnect" || isCall(i, ro.onDisconnectM)
	}) {
		r.neverReach("C09.R5:task-disconnect-before-callbacks:"+siteKey(w, site), "in the task no close-callback run precedes an OnDisconnect delivery", ro.task, site, startsAfter(findIns(ro.task, func(i ssa.Instruction) bool { return isCall(i, ro.closeCallback) })),
			isIns(site), nil, nil, nil, "not reachable from a closeCallback call")
	}
	// the handler task (and its panic path) can reach the close callbacks as soon as closeBy(poller) is visible - before the
	// hang-up goroutine has got to its onDisconnect() call: unless the closer is the user, the task makes sure itself that
	// OnDisconnect was delivered before it runs them
	{
		statusCall := isCallOf(ro.status, ro.kClosing)
		byUser := anyAtom(cmpAtom(statusCall, isConstEq(ro.whoUser), eqRel), cmpAtom(statusCall, isConstEq(ro.whoPoller), neqRel), callResultAtom(ro.isCloseBy, true, ro.whoUser))
		for _, fn := range []*ssa.Function{ro.task, ro.taskPanic} {
			if fn == nil {
				continue
			}
			for _, site := range findIns(fn, func(i ssa.Instruction) bool { return isCall(i, ro.closeCallback) }) {
				ss := &Search{Fn: fn, Stop: func(i ssa.Instruction) bool { return isCall(i, ro.onDisconnectM) }, CutEdge: cutOn(byUser)}
				wit := ss.Find([]Start{Entry(fn)}, isIns(site), false)
				r.Visited += ss.Visited
				r.obW("C09.R5:task-ensures-disconnect-before-callbacks:"+w.FnName(fn), "when the handler task (or its panic path) runs the close callbacks of a connection the peer closed, it has called onDisconnect() first: the hang-up goroutine marks the connection closed before it delivers OnDisconnect, so a handler returning in between would otherwise run the close callbacks first and OnDisconnect would start after them", fn, site, wit, "onDisconnect() on every non-user-close path to the callbacks")
			}
		}
	}
	// every start of a handler-only task (onProcess(nil, handler)) waits for OnConnect: it is reached only through the gate of
	// onRequest(), or behind the same test (state != none, or no OnConnect installed)
	{
		getState := w.MustFn("(*connection).getState")
		stNone := w.ConstInt("connStateNone")
		stateNotNone := cmpAtom(isCallOf(getState), isConstEq(stNone), neqRel)
		isOnConnLoad := func(v ssa.Value) bool {
			c, ok := v.(*ssa.Call)
			if !ok {
				return false
			}
			a := asAtomic(c)
			return a != nil && a.Op == "Load" && structFieldOfAddr(a.Addr) == "onEvent.onConnectCallback"
		}
		onConnUnset := cmpAtom(isOnConnLoad, isNilConst, eqRel)
		for _, site := range callSitesOf(w, ro.onProcess) {
			fn := site.Parent()
			if fn == ro.onRequestM || w.FnName(fn) == "(*connection).onConnect" {
				continue // the gate itself (C06.R5) and the connect task's own start
			}
			if !isNilConst(argVal(callCommon(site), 0)) {
				continue
			}
			r.guarded("C09.R2:handler-task-waits-for-onconnect:"+w.FnName(fn), "a handler-only task is started outside onRequest() only behind the same gate: OnConnect has finished (state != none) or none is installed - otherwise OnRequest would start before OnConnect", fn, site, anyAtom(stateNotNone, onConnUnset), nil, "guarded by state != none | onConnect == nil")
		}
	}
	if r.keep == nil {
		r.borrow([]string{"C06.R3:SetOnRequest-kicks"}, "C06.R3", "C09.R2", func() { c06(r) })
		// a task (OnConnect or handler) starts only for the winner of the processing lock: a second task next to a running one
		// starts callbacks after - or next to - the close callbacks (C05.R1)
		r.borrow([]string{"C05.R1:task-entry-held"}, "C05.R1", "C09.R6", func() { c05(r) })
	}
	_ = fmt.Sprint
}

// guardedQuiet is guarded() without recording an obligation.
func (r *Run) guardedQuiet(fn *ssa.Function, site ssa.Instruction, a Atom) bool {
	base := &Search{Fn: fn}
	wit := guardWitness(fn, site, a, base)
	r.Visited += base.Visited
	return wit == nil
}
