package main

import (
	"fmt"
	"go/token"

	"golang.org/x/tools/go/ssa"
)

func init() {
	register("C16",
		"Decides the structural premises of the stream adapters in nocopy_readwriter.go, not the byte values: (R1) in zcReader.fill every source Read is followed on every path - including the error return, since a source may return data together with an error - by MallocAck(num) and then Flush(), where num is the count Read returned clamped at 0, and the memory read into is the block just reserved; the source's error is what fill returns; (R2) waitRead maps io.EOF to Exception(ErrEOF) and loops until enough is buffered; (R3) zcWriter.Flush commits, writes the readable bytes to the sink, skips exactly the count the sink accepted (guarded n>0), releases, and returns the sink's error; (R4) ioReader.Read copies what Next returned and releases afterwards, reporting io.EOF only when nothing is readable; ioWriter.Write flushes after copying into reserved memory and reports the copied count; (R5) the adapters delegate to the buffer (C01 covers MallocAck(0) / Flush). A block freed by Release is not kept referenced by the buffer the stream reader fills (C03.R2). Not decided: content and ordering of bytes, aliasing of Bytes() in zcWriter.Flush.",
		[]string{"io.Reader / io.Writer contracts: 0 <= n <= len(p)"},
		func(r *Run) {
			cfgs := []string{"linux"}
			if r.Tier == "thorough" {
				cfgs = []string{"linux", "linux-race", "darwin"}
			}
			for _, c := range cfgs {
				if r.useOpt(c) == nil {
					continue
				}
				c16(r)
			}
		})
}

func isInvokeOf(i ssa.Instruction, iface, method string) bool {
	cc := callCommon(i)
	return cc != nil && cc.IsInvoke() && cc.Method.Name() == method && (iface == "" || namedTypeName(cc.Value.Type()) == iface)
}

func c16(r *Run) {
	w := r.W
	onBuf := func(typ, m string) func(ssa.Instruction) bool {
		return func(i ssa.Instruction) bool { x, ok := callOnField(i, typ, "buf"); return ok && x == m }
	}
	// ---- R1 fill ---------------------------------------------------------------------------------------
	fill := w.MustFn("(*zcReader).fill")
	reads := findIns(fill, func(i ssa.Instruction) bool { return isInvokeOf(i, "Reader", "Read") })
	if len(reads) != 1 {
		r.absentf(" C16: %d source Read calls in fill", len(reads))
	}
	rd := reads[0]
	isAck, isFlush := onBuf("zcReader", "MallocAck"), onBuf("zcReader", "Flush")
	r.mustPass("C16.R1:ack-after-every-read", "every source Read is followed by MallocAck on every path - also when the source returned an error (data returned together with an error is delivered) and when it returned 0 bytes (the reserved block is given back)", fill, rd, []Start{After(rd)}, isAck, nil, nil, "MallocAck on every path after Read")
	r.mustPass("C16.R1:flush-after-every-read", "every source Read is followed by Flush on every path (what was read becomes readable before fill can return)", fill, rd, []Start{After(rd)}, isFlush, nil, nil, "Flush on every path after Read")
	for _, f := range findIns(fill, isFlush) {
		r.precedes("C16.R1:ack-before-flush", "the partial reservation is acknowledged before it is committed", fill, f, isAck, nil, "MallocAck dominates Flush")
	}
	for _, a := range findIns(fill, isAck) {
		// argument: Read's count, or a phi of {count, 0}
		arg := argVal(callCommon(a), 0)
		okArg := false
		isCnt := func(v ssa.Value) bool {
			e, ok := v.(*ssa.Extract)
			return ok && e.Tuple == rd.(ssa.Value) && e.Index == 0
		}
		if isCnt(arg) {
			okArg = true
		} else if phi, ok := arg.(*ssa.Phi); ok {
			okArg = true
			for _, e := range phi.Edges {
				if !(isCnt(e) || isConstEq(0)(e)) {
					okArg = false
				}
			}
		}
		r.ob("C16.R1:ack-count-is-read-count", "the count acknowledged is the count the source returned (clamped at 0)", fill, a, okArg, "MallocAck("+shortVal(arg)+")", true)
	}
	{
		// the block read into is the one just reserved
		mallocs := findIns(fill, onBuf("zcReader", "Malloc"))
		okMem := false
		if len(mallocs) == 1 {
			if e, ok := callCommon(rd).Args[0].(*ssa.Extract); ok && e.Tuple == mallocs[0].(ssa.Value) && e.Index == 0 {
				okMem = true
			}
		}
		r.ob("C16.R1:reads-into-reservation", "the source reads into the block that was just reserved in the buffer", fill, rd, okMem, "Read(buf) with buf = r.buf.Malloc(...)", true)
		// one reservation per read: no second Malloc before the ack
		for _, m := range mallocs {
			r.neverReach("C16.R1:one-reservation-per-read", "a reservation is acknowledged before the next one is made", fill, m, []Start{After(m)}, onBuf("zcReader", "Malloc"), isAck, nil, nil, "no second Malloc before MallocAck")
		}
	}
	{
		// the source's error is returned
		errOfRead := func(v ssa.Value) bool {
			e, ok := v.(*ssa.Extract)
			return ok && e.Tuple == rd.(ssa.Value) && e.Index == 1
		}
		gotErr := cmpAtom(func(v ssa.Value) bool {
			if errOfRead(v) {
				return true
			}
			if phi, ok := v.(*ssa.Phi); ok {
				for _, e := range phi.Edges {
					if errOfRead(e) {
						return true
					}
				}
			}
			return false
		}, isNilConst, neqRel)
		starts := edgesEstablishing(fill, gotErr)
		ss := &Search{Fn: fill, Stop: func(i ssa.Instruction) bool { return isInvokeOf(i, "Reader", "Read") }}
		ok := len(starts) > 0
		for _, ret := range ss.Reachable(starts, func(i ssa.Instruction) bool { _, ok := i.(*ssa.Return); return ok }) {
			if lastResultAll(ret.(*ssa.Return), isNilConst) {
				ok = false
			}
		}
		r.ob("C16.R1:source-error-surfaces", "when the source reports an error fill returns an error (after delivering the data)", fill, nil, ok, "err != nil edge returns non-nil", true)
	}

	// ---- R2 waitRead ---------------------------------------------------------------------------------
	{
		wr := w.MustFn("(*zcReader).waitRead")
		isEOF := func(v ssa.Value) (bool, bool) {
			b, ok := v.(*ssa.BinOp)
			if !ok || b.Op != token.EQL {
				return false, false
			}
			for _, side := range []ssa.Value{b.X, b.Y} {
				if u, ok := side.(*ssa.UnOp); ok && u.Op == token.MUL {
					if g, ok := u.X.(*ssa.Global); ok && g.Pkg.Pkg.Path() == "io" && g.Name() == "EOF" {
						return true, true
					}
				}
			}
			return false, false
		}
		{
			// the source's error is not dropped: once fill() reported one, waitRead returns an error (the bytes that came with it
			// stay buffered and are served by the next call; the error itself is not stored anywhere else)
			fillFn := w.MustFn("(*zcReader).fill")
			failed := cmpAtom(func(v ssa.Value) bool {
				c, ok := v.(*ssa.Call)
				return ok && c.Call.StaticCallee() == fillFn
			}, isNilConst, neqRel)
			starts := edgesEstablishing(wr, failed)
			ss := &Search{Fn: wr}
			var bad ssa.Instruction
			for _, ret := range ss.Reachable(starts, func(i ssa.Instruction) bool { _, ok := i.(*ssa.Return); return ok }) {
				if lastResultAll(ret.(*ssa.Return), isNilConst) {
					bad = ret
				}
			}
			r.Visited += ss.Visited
			r.ob("C16.R2:source-error-not-dropped", "once the source reported an error waitRead returns an error on every path: a success return would lose it for good (nothing else remembers it), and the stream would look healthy after a failed read", wr, bad, bad == nil && len(starts) > 0, "no nil return reachable from fill() != nil", true)
		}
		r.mustPass("C16.R2:eof-mapped", "the source's io.EOF is surfaced as Exception(ErrEOF)", wr, nil, edgesEstablishing(wr, isEOF), w.isException("ErrEOF"), nil, nil, "Exception(ErrEOF) on every path from err == io.EOF")
		// returns nil only when enough is buffered
		enough := func(v ssa.Value) (bool, bool) {
			b, ok := v.(*ssa.BinOp)
			if !ok {
				return false, false
			}
			if isLenCall(b.X) {
				switch b.Op {
				case token.LSS:
					return false, true
				case token.GEQ:
					return true, true
				}
			}
			return false, false
		}
		nr := 0
		for _, ins := range allIns(wr) {
			ret, ok := ins.(*ssa.Return)
			if !ok {
				continue
			}
			nr++
			var vals []ssa.Value
			for _, v := range resultValues(ret, 0) {
				if phi, isPhi := v.(*ssa.Phi); isPhi {
					vals = append(vals, phi.Edges...)
				} else {
					vals = append(vals, v)
				}
			}
			for _, v := range vals {
				if isNilConst(v) {
					r.guarded(fmt.Sprintf("C16.R2:nil-only-when-enough#%d", nr), "waitRead reports success only after observing Len() >= n", wr, ret, enough, nil, "guarded by Len() < n == false")
					continue
				}
				if _, isExc := exceptionErrnoVal(w, v); isExc {
					continue
				}
				// any other returned value must be known non-nil on this path (an error from fill), otherwise it may be a
				// "success" that was never checked against the wanted size
				vv := v
				nonNil := cmpAtom(func(x ssa.Value) bool { return x == vv || seeThroughCell(x) == vv }, isNilConst, neqRel)
				r.guarded(fmt.Sprintf("C16.R2:returned-error-is-an-error#%d", nr), "a value other than nil returned by waitRead is an error observed to be non-nil (success is only ever reported through the Len() >= n test)", wr, ret, anyAtom(nonNil, enough), nil, "guarded by err != nil")
			}
		}
		// reader methods consume only after waitRead succeeded
		waitOK := cmpAtom(isCallOf(wr), isNilConst, eqRel)
		for _, name := range []string{"Next", "Peek", "Skip", "Slice", "ReadString", "ReadBinary", "ReadByte"} {
			fn := w.MustFn("(*zcReader)." + name)
			for _, site := range findIns(fn, func(i ssa.Instruction) bool { _, ok := callOnField(i, "zcReader", "buf"); return ok }) {
				r.guarded("C16.R2:consume-after-fill:"+name, "the adapter consumes from its buffer only after waitRead succeeded", fn, site, waitOK, nil, "guarded by waitRead(n)==nil")
			}
		}
	}

	// ---- R3 zcWriter.Flush ----------------------------------------------------------------------------
	{
		fl := w.MustFn("(*zcWriter).Flush")
		writes := findIns(fl, func(i ssa.Instruction) bool { return isInvokeOf(i, "Writer", "Write") })
		if len(writes) != 1 {
			r.absentf(" C16: %d sink Write calls in zcWriter.Flush", len(writes))
		}
		wrc := writes[0]
		commit, skip, rel, bytes := onBuf("zcWriter", "Flush"), onBuf("zcWriter", "Skip"), onBuf("zcWriter", "Release"), onBuf("zcWriter", "Bytes")
		r.precedes("C16.R3:commit-before-write", "pending bytes are committed before the readable bytes are handed to the sink", fl, wrc, commit, nil, "buf.Flush() dominates Write")
		if bs := findIns(fl, bytes); len(bs) == 1 {
			r.ob("C16.R3:writes-readable-bytes", "what is handed to the sink is the buffer's readable bytes", fl, wrc, callCommon(wrc).Args[0] == bs[0].(ssa.Value), "Write(buf.Bytes())", true)
		} else {
			r.ob("C16.R3:writes-readable-bytes", "what is handed to the sink is the buffer's readable bytes", fl, wrc, false, "no single Bytes() call", true)
		}
		cnt := func(v ssa.Value) bool {
			e, ok := v.(*ssa.Extract)
			return ok && e.Tuple == wrc.(ssa.Value) && e.Index == 0
		}
		for _, s := range findIns(fl, skip) {
			arg := argVal(callCommon(s), 0)
			r.ob("C16.R3:skip-accepted-count", "exactly the count the sink accepted is skipped (a short write leaves the rest for the next Flush, once)", fl, s, cnt(arg), "Skip("+shortVal(arg)+")", true)
			r.guarded("C16.R3:skip-guarded", "the skip happens only for n > 0", fl, s, cmpAtom(cnt, isConstEq(0), gtRel), nil, "guarded by n > 0")
			r.mustPass("C16.R3:release-after-skip", "skipped nodes are released", fl, s, []Start{After(s)}, rel, nil, nil, "Release() after Skip()")
		}
		if len(findIns(fl, skip)) == 0 {
			r.ob("C16.R3:skip-accepted-count", "the accepted bytes are skipped", fl, nil, false, "no Skip call", false)
		}
		// the sink's error is returned
		ok := true
		for _, ins := range allIns(fl) {
			if ret, isRet := ins.(*ssa.Return); isRet {
				if !lastResultAll(ret, func(v ssa.Value) bool {
					e, ok := v.(*ssa.Extract)
					return ok && e.Tuple == wrc.(ssa.Value) && e.Index == 1
				}) {
					ok = false
				}
			}
		}
		r.ob("C16.R3:sink-error-returned", "zcWriter.Flush returns the sink's error", fl, nil, ok, "returns Write's error", true)
	}

	// ---- R4 io adapters -------------------------------------------------------------------------------
	{
		rdFn := w.MustFn("(*ioReader).Read")
		nexts := findIns(rdFn, func(i ssa.Instruction) bool { return isInvokeOf(i, "Reader", "Next") })
		rels := func(i ssa.Instruction) bool { return isInvokeOf(i, "Reader", "Release") }
		for _, n := range nexts {
			// on success (err == nil) copy then release
			okEdge := cmpAtom(errOfCall(n.(ssa.Value), 1), isNilConst, eqRel)
			r.mustPass("C16.R4:ioReader-releases", "ioReader.Read releases the reader after copying (the zero-copy block is not needed any more)", rdFn, n, edgesEstablishing(rdFn, okEdge), rels, nil, nil, "Release() on every success path")
			for _, rl := range findIns(rdFn, rels) {
				r.precedes("C16.R4:ioReader-copies-before-release", "the bytes are copied out before the reader is released", rdFn, rl, func(i ssa.Instruction) bool {
					c, ok := i.(*ssa.Call)
					if !ok {
						return false
					}
					bi, ok := c.Call.Value.(*ssa.Builtin)
					return ok && bi.Name() == "copy"
				}, nil, "copy dominates Release")
			}
		}
		if len(nexts) != 1 {
			r.ob("C16.R4:ioReader-reads-through-next", "ioReader.Read consumes through Next", rdFn, nil, false, "Next calls != 1", false)
		}
		wrFn := w.MustFn("(*ioWriter).Write")
		mallocs := findIns(wrFn, func(i ssa.Instruction) bool { return isInvokeOf(i, "Writer", "Malloc") })
		flushes := func(i ssa.Instruction) bool { return isInvokeOf(i, "Writer", "Flush") }
		for _, m := range mallocs {
			okEdge := cmpAtom(errOfCall(m.(ssa.Value), 1), isNilConst, eqRel)
			r.mustPass("C16.R4:ioWriter-flushes", "ioWriter.Write flushes after copying: every written byte reaches the underlying writer without a further call", wrFn, m, edgesEstablishing(wrFn, okEdge), flushes, nil, nil, "Flush() on every success path")
		}
		if len(mallocs) != 1 {
			r.ob("C16.R4:ioWriter-reserves", "ioWriter.Write reserves through Malloc", wrFn, nil, false, "Malloc calls != 1", false)
		}
	}
	// the stream reader's Peek/Next results are served from the LinkBuffer it fills: a block that Release gave back to the pool
	// must not stay referenced by the buffer, or the next fill (which gets that block again) and the next Peek overwrite each other
	r.borrow([]string{"C03.R2:no-reference-kept"}, "C03.R2", "C16.R5", func() { c03(r) })
	r.borrow([]string{"C03.R4:private-copy-is-heap"}, "C03.R4", "C16.R9", func() { c03(r) })
	// ... and the LinkBuffer mechanisms its Slice / ReadByte / Peek results rest on (C02.R5 reference counts, C01.R2/R3 accounting)
	r.borrow([]string{"C02.R5:Refer-"}, "C02.R5", "C16.R6", func() { c02(r) })
	r.borrow([]string{"C02.R1:exposed-before-escape", "C02.R1:marked-node-is-handed-out"}, "C02.R1", "C16.R8", func() { c02(r) })
	r.borrow([]string{"C01.R2:", "C01.R3:", "C01.R4:", "C01.R10:"}, "C01.R", "C16.R7.", func() { c01(r) })
}
