// nplint: repository-specific static checker for cloudwego/netpoll.
//
//	nplint -prop C05 -tier quick|thorough [-repo /repo] [-verif /verif] [-only key-prefix]
//
// exit 0: every obligation discharged (or listed as an open known finding)
// exit 1: some obligation violated; prints "VIOLATION property=<id> replay=<path>"
// exit 2: the check itself is broken (load/type error, lost anchor, vacuous rule); prints "BROKEN: ..."
package main

import (
	"encoding/json"
	"flag"
	"fmt"
	"os"
	"path/filepath"
	"runtime/debug"
	"sort"
	"time"
)

type propDef struct {
	id      string
	explain string
	assume  []string
	run     func(r *Run)
}

var props = map[string]*propDef{}

func register(id, explain string, assume []string, run func(r *Run)) {
	props[id] = &propDef{id, explain, assume, run}
}

func main() {
	prop := flag.String("prop", "", "property id (C01..C19) or 'all'")
	tier := flag.String("tier", os.Getenv("VERIF_TIER"), "quick|thorough")
	repo := flag.String("repo", "/repo", "repository root")
	verif := flag.String("verif", "", "verif root (default: parent of the binary's directory)")
	only := flag.String("only", "", "only report obligations whose key has this prefix (evidence is not rewritten)")
	list := flag.Bool("list", false, "print the registered properties as JSON and exit")
	flag.Parse()
	if *list {
		type pd struct {
			ID      string   `json:"id"`
			Explain string   `json:"explain"`
			Assume  []string `json:"assume"`
		}
		var out []pd
		for id, p := range props {
			out = append(out, pd{id, p.explain, p.assume})
		}
		sort.Slice(out, func(i, j int) bool { return out[i].ID < out[j].ID })
		b, _ := json.MarshalIndent(out, "", " ")
		fmt.Println(string(b))
		return
	}
	if *tier != "thorough" {
		*tier = "quick"
	}
	if *verif == "" {
		exe, _ := os.Executable()
		*verif = filepath.Dir(filepath.Dir(exe))
		if _, err := os.Stat(filepath.Join(*verif, "properties.jsonl")); err != nil {
			*verif = "/verif"
		}
	}
	ids := []string{*prop}
	if *prop == "all" {
		ids = nil
		for id := range props {
			ids = append(ids, id)
		}
		sort.Strings(ids)
	}
	code := 0
	for _, id := range ids {
		c := runProp(id, *tier, *repo, *verif, *only)
		if c > code {
			code = c
		}
	}
	os.Exit(code)
}

func runProp(id, tier, repo, verif, only string) (code int) {
	pd, ok := props[id]
	if !ok {
		fmt.Printf("BROKEN: unknown property %q\n", id)
		return 2
	}
	defer func() {
		if e := recover(); e != nil {
			if b, ok := e.(brokenErr); ok {
				fmt.Printf("BROKEN: property=%s %s\n", id, b.msg)
			} else {
				fmt.Printf("BROKEN: property=%s internal panic: %v\n%s\n", id, e, debug.Stack())
			}
			code = 2
		}
	}()
	r := &Run{Prop: id, Tier: tier, Repo: repo, Verif: verif, Only: only, start: time.Now(),
		Explain: pd.explain, Assume: pd.assume}
	func() {
		defer func() {
			if e := recover(); e != nil {
				if _, ok := e.(abortErr); ok {
					return
				}
				panic(e)
			}
		}()
		pd.run(r)
	}()
	return r.finish()
}
