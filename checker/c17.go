package main

import (
	"fmt"
	"go/token"
	"go/types"
	"strings"

	"golang.org/x/tools/go/ssa"
)

func init() {
	register("C17",
		"Decides the structural premises of the ShardQueue hand-off in mux/shard_queue.go: the worker flushes after draining and before it gives up the run flag; after Store(runNum,0) its first action is to re-read the trigger counter and restart itself when it is positive (an Add that found the worker still running relies on that); triggering() starts the worker for the first pending trigger and foreach() starts at most one; the per-shard spin lock is released after every acquisition and every access to a shard's getter slice is under it; the shard handed to deal() is replaced by an empty slice; getters are invoked only by deal(), once per element; Add mutates only while state==active; Close returns nil only after observing trigger==0 or state==closed; the trigger ring index is written only under listLock. The trigger counter is decremented only after deal(); the drained shard gets the spare buffer as it was before the swap; deal() walks the whole batch; the shard index is the remainder of the unsigned counter value (F20). Not decided: the ring's w/r arithmetic under wrap-around, fairness of the runner.",
		[]string{"sync/atomic is linearizable", "runner.RunTask eventually runs the task"},
		func(r *Run) {
			r.use("linux")
			c17(r)
			if r.Tier == "thorough" {
				if r.useOpt("darwin") != nil {
					c17(r)
				}
			}
		})
}

func atomicOn(i ssa.Instruction, op, field string) bool {
	a := asAtomic(i)
	if a == nil || a.Op != op {
		return false
	}
	return structFieldOfAddr(a.Addr) == field
}

func atomicValOn(op, field string) func(ssa.Value) bool {
	return func(v ssa.Value) bool {
		c, ok := v.(*ssa.Call)
		return ok && atomicOn(c, op, field)
	}
}

func c17(r *Run) {
	w := r.W
	if w.Mux == nil {
		broken("ANCHOR-LOST C17: package mux not loaded")
	}
	foreach := w.MustFn("(*mux.ShardQueue).foreach")
	triggering := w.MustFn("(*mux.ShardQueue).triggering")
	add := w.MustFn("(*mux.ShardQueue).Add")
	closeFn := w.MustFn("(*mux.ShardQueue).Close")
	deal := w.MustFn("(*mux.ShardQueue).deal")
	flush := w.MustFn("(*mux.ShardQueue).flush")
	qlock := w.MustFn("(*mux.ShardQueue).lock")
	qunlock := w.MustFn("(*mux.ShardQueue).unlock")
	worker := closureArgOfDynCall(foreach, "global:runner.RunTask", 1)
	if worker == nil {
		r.absentf(" C17: worker closure (argument of runner.RunTask in foreach)")
	}
	const fTrigger, fRun, fState = "queueTrigger.trigger", "queueTrigger.runNum", "queueTrigger.state"
	stActive, stClosed := w.constIn(w.Mux, "active"), w.constIn(w.Mux, "closed")

	// ---- R2 flush before exit / before giving up the run flag --------------------------------------
	isFlush := func(i ssa.Instruction) bool { return isCall(i, flush) }
	releases := findIns(worker, func(i ssa.Instruction) bool {
		a := asAtomic(i)
		if a == nil || a.Op != "Store" || structFieldOfAddr(a.Addr) != fRun {
			return false
		}
		k, ok := constInt(a.Args[0])
		return ok && k == 0
	})
	if len(releases) == 0 {
		r.ob("C17.R1:worker-releases-run-flag", "the worker gives up the run flag when it is done", worker, nil, false, "no Store(runNum,0)", false)
	}
	r.mustPass("C17.R2:flush-before-exit", "the worker flushes the connection on every path before it exits: appended data is sent without a further Add", worker, nil, []Start{Entry(worker)}, isFlush, nil, nil, "flush() on every path")
	for i, rel := range releases {
		r.precedes("C17.R2:flush-before-release"+ordinal(i), "the flush happens before the run flag is released (a second worker must not flush concurrently)", worker, rel, isFlush, nil, "flush() dominates Store(runNum,0)")
		// after the flush nothing is appended any more in this run: no deal() after flush
		// ---- R1 hand-off --------------------------------------------------------------------------
		isTrigRead := func(x ssa.Instruction) bool { return atomicOn(x, "Load", fTrigger) }
		ss := &Search{Fn: worker, Stop: isTrigRead}
		wit := ss.Find([]Start{After(rel)}, func(x ssa.Instruction) bool {
			// anything of the queue's own machinery before the re-read (foreach, deal, flush, a state change) is too early;
			// calls into other packages (logging, formatting) are irrelevant
			if c, ok := x.(*ssa.Call); ok {
				if cal := c.Call.StaticCallee(); cal != nil && cal.Pkg != nil && isModulePkg(cal.Pkg.Pkg) {
					return true
				}
				if a := asAtomic(c); a != nil && !isTrigRead(x) && a.Op != "Load" {
					return true
				}
			}
			return false
		}, true)
		r.Visited += ss.Visited
		r.obW("C17.R1:reread-after-release"+ordinal(i), "after Store(runNum,0) the worker's first action is to re-read the trigger counter: an Add whose foreach() found the flag still set relies on this re-check", worker, rel, wit, "Load(trigger) directly after the release")
		ss2 := &Search{Fn: worker, Stop: isTrigRead}
		first := ss2.Reachable([]Start{After(rel)}, isTrigRead)
		pending := cmpAtom(func(v ssa.Value) bool {
			c, ok := v.(*ssa.Call)
			if !ok {
				return false
			}
			for _, f := range first {
				if f == ssa.Instruction(c) {
					return true
				}
			}
			return false
		}, isConstEq(0), gtRel)
		r.mustPass("C17.R1:restart-when-pending"+ordinal(i), "when that re-read finds pending triggers the worker restarts itself (foreach)", worker, rel, edgesEstablishing(worker, pending),
			func(x ssa.Instruction) bool { return isCall(x, foreach) }, nil, nil, "foreach() on every path from trigger>0")
	}
	// the worker exits after giving up the run flag only on an edge where it observed no pending trigger
	for i, rel := range releases {
		idle := cmpAtom(atomicValOn("Load", fTrigger), isConstEq(0), func(op token.Token) (bool, bool) {
			switch op {
			case token.GTR, token.NEQ:
				return false, true
			case token.LEQ, token.EQL:
				return true, true
			}
			return false, false
		})
		ss := &Search{Fn: worker, Stop: func(x ssa.Instruction) bool { return isCall(x, foreach) }, CutEdge: cutOn(idle)}
		wit := ss.Find([]Start{After(rel)}, nil, true)
		r.Visited += ss.Visited
		r.obW("C17.R1:exit-only-if-idle"+ordinal(i), "after Store(runNum,0) the worker exits without restarting only on an edge where it observed trigger == 0", worker, rel, wit, "foreach(), or a trigger==0 observation, on every path to exit")
	}
	for _, fl := range findIns(worker, isFlush) {
		r.neverReach("C17.R2:nothing-appended-after-flush", "no getter is dealt with after the flush of this run", worker, fl, []Start{After(fl)}, func(i ssa.Instruction) bool { return isCall(i, deal) }, nil, nil, nil, "no deal() after flush()")
	}
	// the closing -> closed transition is made only on the idle exit, never on the "restart" exit
	for _, ins := range allIns(worker) {
		a := asAtomic(ins)
		if a == nil || a.Op != "CompareAndSwap" || structFieldOfAddr(a.Addr) != fState {
			continue
		}
		if _, isDefer := ins.(*ssa.Defer); isDefer {
			r.ob("C17.R4:closed-only-when-idle", "the worker marks the queue closed only when it exits idle (trigger==0 observed after giving up the run flag); a deferred transition would also fire when it restarts itself with work pending", worker, ins, false, "deferred CompareAndSwap(state, closing, closed) runs on every exit", true)
			continue
		}
		idle := cmpAtom(atomicValOn("Load", fTrigger), isConstEq(0), func(op token.Token) (bool, bool) {
			switch op {
			case token.GTR, token.NEQ:
				return false, true
			case token.LEQ, token.EQL:
				return true, true
			}
			return false, false
		})
		ss := &Search{Fn: worker, CutEdge: cutOn(idle)}
		wit := ss.Find(startsAfter(releases), isIns(ins), false)
		r.Visited += ss.Visited
		r.obW("C17.R4:closed-only-when-idle", "the worker marks the queue closed only when it exits idle (trigger==0 observed after giving up the run flag)", worker, ins, wit, "guarded by Load(trigger)==0 since the release")
	}
	// every shard owns its getter buffer: appending to one shard can never reach into another's
	{
		ctor := w.MustFn("mux.NewShardQueue")
		ok, n := true, 0
		forEachIns(ctor, func(i ssa.Instruction) {
			st, isSt := i.(*ssa.Store)
			if !isSt {
				return
			}
			ia, isIA := st.Addr.(*ssa.IndexAddr)
			if !isIA || !strings.HasSuffix(pathOf(ia.X), ".getters") && !strings.Contains(pathOf(ia.X), "getters") {
				return
			}
			n++
			switch v := st.Val.(type) {
			case *ssa.MakeSlice:
			case *ssa.Slice:
				// make with constant sizes is "new [N]T; slice": a fresh array per store is its own allocation
				if _, fresh := v.X.(*ssa.Alloc); !fresh && v.Max == nil {
					ok = false
				}
			default:
				ok = false
			}
		})
		r.ob("C17.R3:shard-buffers-disjoint", "each shard's getter slice is its own allocation (or a capacity-limited window): append on one shard cannot overwrite another shard's pending getters", ctor, nil, ok && n > 0, fmt.Sprintf("%d shard buffer initialisations", n), true)
	}
	// delegators
	{
		firstTrig := cmpAtom(atomicValOn("Add", fTrigger), isConstEq(1), func(op token.Token) (bool, bool) {
			switch op {
			case token.GTR:
				return false, true
			case token.LEQ, token.EQL:
				return true, true
			}
			return false, false
		})
		r.mustPass("C17.R1:first-trigger-starts-worker", "the Add that moves the trigger counter from 0 starts the worker", triggering, nil, edgesEstablishing(triggering, firstTrig),
			func(x ssa.Instruction) bool { return isCall(x, foreach) }, nil, nil, "foreach() on every path from trigger==1")
		r.mustPass("C17.R1:every-trigger-counts", "every triggering() increments the trigger counter", triggering, nil, []Start{Entry(triggering)}, func(x ssa.Instruction) bool { return atomicOn(x, "Add", fTrigger) }, nil, nil, "AddInt32(&trigger,1) on every path")
		firstRun := cmpAtom(atomicValOn("Add", fRun), isConstEq(1), func(op token.Token) (bool, bool) {
			switch op {
			case token.GTR:
				return false, true
			case token.LEQ, token.EQL:
				return true, true
			}
			return false, false
		})
		run := findIns(foreach, func(i ssa.Instruction) bool {
			cc := callCommon(i)
			if cc == nil || cc.StaticCallee() != nil {
				return false
			}
			for _, k := range dynCallKinds(cc) {
				if k == "global:runner.RunTask" {
					return true
				}
			}
			return false
		})
		for _, site := range run {
			r.guarded("C17.R1:single-worker", "a worker task is started only by the caller that moved runNum from 0 to 1", foreach, site, firstRun, nil, "guarded by AddInt32(&runNum,1)==1")
		}
		r.mustPass("C17.R1:first-run-starts-task", "the caller that obtains the run flag always starts the task", foreach, nil, edgesEstablishing(foreach, firstRun), func(x ssa.Instruction) bool {
			for _, s := range run {
				if s == x {
					return true
				}
			}
			return false
		}, nil, nil, "RunTask on every path from runNum==1")
		// the ring slot is written before the counter is bumped
		for _, a := range findIns(triggering, func(x ssa.Instruction) bool { return atomicOn(x, "Add", fTrigger) }) {
			r.precedes("C17.R1:ring-before-counter", "the shard index is put into the ring before the trigger counter makes it visible to the worker", triggering, a, func(x ssa.Instruction) bool {
				st, ok := x.(*ssa.Store)
				if !ok {
					return false
				}
				ia, ok := st.Addr.(*ssa.IndexAddr)
				return ok && strings.HasSuffix(pathOf(ia.X), ".list")
			}, nil, "list[w] = shard dominates AddInt32(&trigger,1)")
		}
	}

	// ---- R3 shard lock pairing and guarded-by ----------------------------------------------------
	// the worker and the private helpers only it calls (statements extracted from it)
	workerFns := []*ssa.Function{worker}
	for _, f := range w.Funcs {
		if f != worker && f != deal {
			if o, ok := w.OwnerOf(f, func(n string) bool { return n == w.FnName(worker) }); ok && o == w.FnName(worker) {
				workerFns = append(workerFns, f)
			}
		}
	}
	workerLocks := 0
	for _, f := range workerFns {
		workerLocks += len(findIns(f, func(i ssa.Instruction) bool { return isCall(i, qlock) }))
	}
	for _, fn := range append([]*ssa.Function{add}, workerFns...) {
		acq := findIns(fn, func(i ssa.Instruction) bool { return isCall(i, qlock) })
		if len(acq) == 0 && (fn == add || (fn == worker && workerLocks == 0)) {
			r.ob("C17.R3:shard-lock-used:"+w.FnName(fn), "the function takes the shard lock", fn, nil, false, "no q.lock(shard)", false)
		}
		for i, a := range acq {
			shard := argVal(callCommon(a), 0)
			r.mustPass(fmt.Sprintf("C17.R3:shard-lock-released:%s#%d", w.FnName(fn), i+1), "the shard spin lock is released on every path after it was taken", fn, a, []Start{After(a)},
				func(x ssa.Instruction) bool { return isCallOrDefer(x, qunlock) && argVal(callCommon(x), 0) == shard }, nil, nil, "q.unlock(shard) on every path")
		}
		// every access to getters[...] is between lock and unlock
		for _, ins := range findIns(fn, func(i ssa.Instruction) bool {
			var addr ssa.Value
			switch x := i.(type) {
			case *ssa.UnOp:
				if x.Op == token.MUL {
					addr = x.X
				}
			case *ssa.Store:
				addr = x.Addr
			}
			ia, ok := addr.(*ssa.IndexAddr)
			return ok && strings.HasSuffix(pathOf(ia.X), ".getters")
		}) {
			starts := append([]Start{Entry(fn)}, startsAfter(findIns(fn, func(i ssa.Instruction) bool { return isCall(i, qunlock) }))...)
			ss := &Search{Fn: fn, Stop: func(i ssa.Instruction) bool { return isCall(i, qlock) }}
			wit := ss.Find(starts, isIns(ins), false)
			r.Visited += ss.Visited
			r.obW("C17.R3:getters-under-shard-lock:"+siteKey(w, ins), "a shard's getter slice is read and written only under that shard's lock", fn, ins, wit, "between q.lock(shard) and q.unlock(shard)")
		}
	}
	// the drained shard is replaced by an empty slice, and what is dealt with is what was taken
	{
		okEmpty := false
		var sameArray ssa.Instruction
		for _, wf := range workerFns {
			forEachIns(wf, func(i ssa.Instruction) {
				st, ok := i.(*ssa.Store)
				if !ok {
					return
				}
				ia, ok := st.Addr.(*ssa.IndexAddr)
				if !ok || !strings.HasSuffix(pathOf(ia.X), ".getters") {
					return
				}
				if sl, ok := st.Val.(*ssa.Slice); ok && sl.High != nil {
					if k, okc := constInt(sl.High); okc && k == 0 {
						okEmpty = true
						// ... cut from another array than the one just taken out of the shard (which deal() is about to
						// walk while producers append to the shard)
						if u, isLoad := sl.X.(*ssa.UnOp); isLoad && u.Op == token.MUL {
							if ia2, ok := u.X.(*ssa.IndexAddr); ok && strings.HasSuffix(pathOf(ia2.X), ".getters") {
								sameArray = i
							}
						}
					}
				}
			})
		}
		const sharedRule = "the empty slice left in a drained shard is not a re-slice of the batch that was just taken out of it: producers append to the shard under its lock while the worker walks the batch outside the lock - on a shared array they overwrite getters that have not run yet"
		if sameArray != nil {
			r.ob("C17.R3:emptied-shard-does-not-share-the-batch", sharedRule, sameArray.Parent(), sameArray, false, "getters[shard] = getters[shard][:0]", true)
		} else if okEmpty {
			r.ob("C17.R3:emptied-shard-does-not-share-the-batch", sharedRule, worker, nil, true, "cut from the spare buffer", true)
		}
		r.ob("C17.R3:shard-emptied", "the worker leaves an empty slice in the shard it drains (otherwise its getters would run again)", worker, nil, okEmpty, "getters[shard] = swap[:0]", true)
		for _, d := range findIns(worker, func(i ssa.Instruction) bool { return isCall(i, deal) }) {
			r.precedes("C17.R3:deal-after-unlock", "getters are executed outside the shard lock (Add never spins on user code)", worker, d, func(i ssa.Instruction) bool {
				if isCall(i, qunlock) {
					return true
				}
				// a private helper of the worker that takes and releases the shard lock on every path
				for _, wf := range workerFns[1:] {
					if isCall(i, wf) {
						ss := &Search{Fn: wf, Stop: func(x ssa.Instruction) bool { return isCallOrDefer(x, qunlock) }}
						return ss.Find([]Start{Entry(wf)}, nil, true) == nil
					}
				}
				return false
			}, nil, "q.unlock dominates deal()")
		}
	}
	// the counter is settled only after the shard's getters were dealt with: Close waits for trigger==0, and that must mean
	// "handled", not "taken"
	{
		_ = deal
		for _, a := range findIns(worker, func(x ssa.Instruction) bool { return atomicOn(x, "Add", fTrigger) }) {
			ss := &Search{Fn: worker, Stop: func(i ssa.Instruction) bool { return isCall(i, deal) }}
			wit := ss.Find(startsAfter(findIns(worker, func(i ssa.Instruction) bool { return isCall(i, qunlock) })), isIns(a), false)
			r.Visited += ss.Visited
			r.obW("C17.R4:counter-settled-after-deal", "in the worker the trigger counter is decremented only after the shard that was just taken has been dealt with: Close returns when it sees trigger==0, which must mean that every getter added before was invoked", worker, a, wit, "deal() lies between taking the shard and AddInt32(&trigger, -n)")
		}
		// the buffer left in the shard is the worker's previous (already dealt) buffer, never the one it is about to walk
		swapStores := findIns(worker, func(i ssa.Instruction) bool { return isStoreToField(i, "ShardQueue", "swap") })
		for _, ins := range allIns(worker) {
			st, ok := ins.(*ssa.Store)
			if !ok {
				continue
			}
			ia, ok := st.Addr.(*ssa.IndexAddr)
			if !ok || !strings.HasSuffix(pathOf(ia.X), ".getters") {
				continue
			}
			sl, ok := st.Val.(*ssa.Slice)
			if !ok {
				continue
			}
			ld, isLoad := sl.X.(*ssa.UnOp)
			if !isLoad {
				continue
			}
			if _, fromSwap := loadOfField(ld, "ShardQueue", "swap"); !fromSwap {
				continue
			}
			// within one critical section: a store of q.swap made outside the shard lock (the spare is worker-private) is fine
			ss := &Search{Fn: worker, Stop: func(i ssa.Instruction) bool { return isCall(i, qunlock) || isCall(i, qlock) }}
			wit := ss.Find(startsAfter(swapStores), isIns(ld), false)
			r.Visited += ss.Visited
			r.obW("C17.R3:shard-gets-the-spare-buffer", "the empty slice left in a drained shard is cut from the worker's spare buffer as it was before this swap - not from the buffer just taken out of the shard, which the worker is about to walk without the lock while Add appends into the shard", worker, ins, wit, "q.swap is read for the shard before q.swap is overwritten in the same critical section")
		}
	}
	// every getter of a batch is invoked: the walk ends at the end of the batch, or after the connection was closed on an
	// Append error - a getter that has nothing to send does not end it
	{
		isGetterCall := func(i ssa.Instruction) bool {
			cc := callCommon(i)
			return cc != nil && cc.StaticCallee() == nil && !cc.IsInvoke() && namedTypeName(cc.Value.Type()) == "WriterGetter"
		}
		endOfBatch := func(ifi *ssa.If, cond ssa.Value, branch bool) bool {
			b, ok := cond.(*ssa.BinOp)
			if !ok || b.Op != token.LSS || branch {
				return false
			}
			c, ok := b.Y.(*ssa.Call)
			if !ok {
				return false
			}
			bi, ok := c.Call.Value.(*ssa.Builtin)
			return ok && bi.Name() == "len" && len(deal.Params) > 1 && c.Call.Args[0] == deal.Params[1]
		}
		closes := func(i ssa.Instruction) bool {
			cc := callCommon(i)
			return cc != nil && cc.IsInvoke() && cc.Method.Name() == "Close"
		}
		for _, g := range findIns(deal, isGetterCall) {
			ss := &Search{Fn: deal, Stop: closes, CutEdge: endOfBatch}
			wit := ss.Find([]Start{After(g)}, nil, true)
			r.Visited += ss.Visited
			r.obW("C17.R3:batch-walk-is-complete", "deal() leaves its loop over the batch only at the end of the batch or after it closed the connection on an Append error: a getter that reports nothing to send (isNil) does not drop the getters queued behind it", deal, g, wit, "the only exits after a getter call are the end of the range and the Close() path")
		}
	}
	// a wrapping 32-bit atomic counter is reduced to an index only as an unsigned value: a signed remainder turns negative
	// after 2^31 Adds and the next Add panics on the shard tables (its getter is never invoked)
	{
		n := 0
		for _, f := range w.Funcs {
			if !strings.HasPrefix(w.FnName(f), "(*mux.ShardQueue).") {
				continue
			}
			for _, ins := range allIns(f) {
				b, ok := ins.(*ssa.BinOp)
				if !ok || b.Op != token.REM {
					continue
				}
				x := b.X
				for {
					if cv, ok := x.(*ssa.Convert); ok {
						x = cv.X
						continue
					}
					if ct, ok := x.(*ssa.ChangeType); ok {
						x = ct.X
						continue
					}
					break
				}
				c, ok := x.(*ssa.Call)
				if !ok {
					continue
				}
				a := asAtomic(c)
				if a == nil || a.Op != "Add" {
					continue
				}
				callee := c.Call.StaticCallee()
				if callee == nil || !(strings.HasSuffix(callee.Name(), "Int32") || strings.HasSuffix(callee.Name(), "Uint32")) {
					continue
				}
				n++
				bt, _ := b.X.Type().Underlying().(*types.Basic)
				unsigned := bt != nil && bt.Info()&types.IsUnsigned != 0
				r.ob("C17.R4:shard-index-never-negative:"+f.Name(), "the index derived from a wrapping 32-bit atomic counter is the remainder of its unsigned value: the signed remainder is negative after 2^31 Adds on one queue and Add would panic indexing the shard locks", f, ins, unsigned, "remainder taken on "+b.X.Type().String(), true)
			}
		}
		if n == 0 {
			r.absentf(" C17: no shard index derived from the Add counter")
		}
	}
	// getters are invoked only by deal, once per element of its argument
	for _, f := range w.Funcs {
		for _, ins := range findIns(f, func(i ssa.Instruction) bool {
			cc := callCommon(i)
			return cc != nil && cc.StaticCallee() == nil && !cc.IsInvoke() && namedTypeName(cc.Value.Type()) == "WriterGetter"
		}) {
			r.ob("C17.R3:who-invokes-getters:"+w.FnName(f), "WriterGetter values are invoked only by deal()", f, ins, f == deal, "in "+w.FnName(f), false)
			if f == deal {
				r.neverReach("C17.R3:getter-once-per-element", "a getter is invoked once per loop iteration (no second call before the range advances)", f, ins, []Start{After(ins)},
					func(x ssa.Instruction) bool {
						cc := callCommon(x)
						return cc != nil && cc.StaticCallee() == nil && !cc.IsInvoke() && namedTypeName(cc.Value.Type()) == "WriterGetter"
					},
					func(x ssa.Instruction) bool {
						// the range increment: a phi of the loop is re-evaluated in the header; stop at the header's compare
						b, ok := x.(*ssa.BinOp)
						return ok && b.Op == token.ADD && strings.Contains(b.X.Name(), "t") && isConstEq(1)(b.Y) && isRangeIndex(b.X)
					}, nil, nil, "no second invocation in the same iteration")
			}
		}
	}
	// ... and what a getter hands back is appended unless the getter itself said "nothing" (isNil): deal does not judge the buffer
	for _, ins := range findIns(deal, func(i ssa.Instruction) bool {
		cc := callCommon(i)
		return cc != nil && cc.StaticCallee() == nil && !cc.IsInvoke() && namedTypeName(cc.Value.Type()) == "WriterGetter"
	}) {
		call, _ := ins.(*ssa.Call)
		if call == nil {
			continue
		}
		isGetter := func(x ssa.Instruction) bool {
			cc := callCommon(x)
			return cc != nil && cc.StaticCallee() == nil && !cc.IsInvoke() && namedTypeName(cc.Value.Type()) == "WriterGetter"
		}
		notNil := func(v ssa.Value) (bool, bool) {
			if e, ok := v.(*ssa.Extract); ok && e.Tuple == ssa.Value(call) && e.Index == 1 {
				return false, true
			}
			return false, false
		}
		r.neverReach("C17.R3:non-nil-result-is-appended", "when a getter did not report isNil its buffer is appended to the connection's writer before deal moves on: deal does not second-guess the buffer (a flushed buffer has Len()>0 and MallocLen()==0)", deal, ins, []Start{After(ins)},
			func(x ssa.Instruction) bool {
				_, isRet := x.(*ssa.Return)
				return isRet || isGetter(x)
			},
			func(x ssa.Instruction) bool {
				cc := callCommon(x)
				return cc != nil && cc.IsInvoke() && cc.Method.Name() == "Append"
			}, nil, notNil, "Append() before the next getter / return when isNil is false")
	}
	for _, site := range callSitesOf(w, deal) {
		r.ob("C17.R3:who-deals:"+w.FnName(site.Parent()), "deal() is called only by the worker", site.Parent(), site, site.Parent() == worker, "caller", false)
	}

	// ---- R4 Close semantics --------------------------------------------------------------------------
	{
		isActive := cmpAtom(atomicValOn("Load", fState), isConstEq(stActive), eqRel)
		for _, ins := range findIns(add, func(i ssa.Instruction) bool {
			st, ok := i.(*ssa.Store)
			if !ok {
				return false
			}
			ia, ok := st.Addr.(*ssa.IndexAddr)
			return ok && strings.HasSuffix(pathOf(ia.X), ".getters")
		}) {
			r.guarded("C17.R4:add-only-when-active", "Add appends only after observing state==active (Adds after Close are ignored)", add, ins, isActive, nil, "guarded by Load(state)==active")
		}
		for _, site := range findIns(add, func(i ssa.Instruction) bool { return isCall(i, triggering) }) {
			// triggered exactly when the shard went from empty to non-empty
			r.ob("C17.R4:trigger-on-first", "Add triggers when the shard was empty before this Add", add, site, triggerOnEmpty(add, site), "trigger := len(getters[shard]) == 0, read under the lock", true)
		}
		// ... and only when this Add put something into it: a trigger for a shard that stays empty is repeated by the next Add,
		// one shard then owns several of the ring's `size` slots and the write index overwrites another shard's pending entry
		{
			isLenOfGts := func(v ssa.Value) bool {
				c, ok := v.(*ssa.Call)
				if !ok {
					return false
				}
				bi, ok := c.Call.Value.(*ssa.Builtin)
				if !ok || bi.Name() != "len" {
					return false
				}
				if p, isP := c.Call.Args[0].(*ssa.Parameter); isP && p.Parent() == add {
					return true
				}
				return false
			}
			nonEmpty := anyAtom(
				cmpAtom(isLenOfGts, isConstEq(0), func(op token.Token) (bool, bool) {
					switch op {
					case token.NEQ, token.GTR:
						return true, true
					case token.EQL, token.LEQ:
						return false, true
					}
					return false, false
				}),
				cmpAtom(isLenOfGts, isConstEq(1), func(op token.Token) (bool, bool) {
					switch op {
					case token.GEQ:
						return true, true
					case token.LSS:
						return false, true
					}
					return false, false
				}))
			for _, site := range findIns(add, func(i ssa.Instruction) bool { return isCall(i, triggering) }) {
				base := &Search{Fn: add}
				wit := guardWitness(add, site, nonEmpty, base)
				r.Visited += base.Visited
				r.obW("C17.R4:trigger-only-when-something-was-added", "Add triggers a shard only when it appended at least one getter to it: a trigger for a shard that stays empty is repeated by every later Add, the trigger ring (one slot per shard) overflows and another shard's pending entry is overwritten - its getters are never invoked", add, site, wit, "guarded by len(gts) > 0")
			}
		}
		drained := cmpAtom(atomicValOn("Load", fTrigger), isConstEq(0), eqRel)
		isClosed := cmpAtom(atomicValOn("Load", fState), isConstEq(stClosed), eqRel)
		workerIdle := cmpAtom(atomicValOn("Load", fRun), isConstEq(0), eqRel)
		n := 0
		for _, ins := range allIns(closeFn) {
			ret, ok := ins.(*ssa.Return)
			if !ok {
				continue
			}
			n++
			if lastResultAll(ret, isNilConst) {
				r.guarded(fmt.Sprintf("C17.R4:close-returns-when-drained#%d", n), "Close returns nil only after it saw no pending trigger (or the worker marked the queue closed)", closeFn, ret, anyAtom(drained, isClosed), nil, "guarded by Load(trigger)==0 | Load(state)==closed")
				r.guarded(fmt.Sprintf("C17.R4:close-waits-for-the-flush#%d", n), "Close returns nil only after it saw the worker's run flag clear (or the worker marked the queue closed): the worker brings the trigger counter to 0 after the last deal but flushes afterwards, and gives the run flag back only after the flush - 'no pending trigger' alone lets Close return with the data appended but not flushed", closeFn, ret, anyAtom(workerIdle, isClosed), nil, "guarded by Load(runNum)==0 | Load(state)==closed")
			}
		}
		casClosing := func(v ssa.Value) bool {
			c, ok := v.(*ssa.Call)
			return ok && atomicOn(c, "CompareAndSwap", fState)
		}
		lost := func(v ssa.Value) (bool, bool) {
			if casClosing(v) {
				return false, true
			}
			return false, false
		}
		ss := &Search{Fn: closeFn}
		okErr := true
		for _, ret := range ss.Reachable(edgesEstablishing(closeFn, lost), func(i ssa.Instruction) bool { _, ok := i.(*ssa.Return); return ok }) {
			if lastResultAll(ret.(*ssa.Return), isNilConst) {
				okErr = false
			}
		}
		r.ob("C17.R4:second-close-errors", "a second Close reports an error instead of waiting", closeFn, nil, okErr, "CAS(active,closing) failure returns an error", true)
	}
	// ring write index only under listLock
	for _, ins := range findIns(triggering, func(i ssa.Instruction) bool { return isStoreToField(i, "queueTrigger", "w") }) {
		isLock := func(i ssa.Instruction) bool {
			f := calleeOf(i)
			return f != nil && f.Name() == "Lock" && strings.HasSuffix(pathOf(callCommon(i).Args[0]), ".listLock")
		}
		isUnlock := func(i ssa.Instruction) bool {
			f := calleeOf(i)
			return f != nil && f.Name() == "Unlock" && strings.HasSuffix(pathOf(callCommon(i).Args[0]), ".listLock")
		}
		starts := append([]Start{Entry(triggering)}, startsAfter(findIns(triggering, isUnlock))...)
		ss := &Search{Fn: triggering, Stop: isLock}
		wit := ss.Find(starts, isIns(ins), false)
		r.Visited += ss.Visited
		r.obW("C17.R3:ring-write-under-listLock", "the ring's write index is advanced only under listLock (concurrent Adds)", triggering, ins, wit, "between listLock.Lock and Unlock")
	}
	// ... and the counter is bumped in the same critical section: the worker takes "trigger" entries off the ring in ring order,
	// so an entry that is in the ring but not yet counted lets a later Add's count pay for it - the later Add's own shard stays
	// pending with the counter at 0, and Close (which waits for 0) returns before that getter ran
	for _, ins := range findIns(triggering, func(i ssa.Instruction) bool {
		a := asAtomic(i)
		return a != nil && a.Op == "Add" && structFieldOfAddr(a.Addr) == fTrigger
	}) {
		isLock := func(i ssa.Instruction) bool {
			f := calleeOf(i)
			return f != nil && f.Name() == "Lock" && strings.HasSuffix(pathOf(callCommon(i).Args[0]), ".listLock")
		}
		isUnlock := func(i ssa.Instruction) bool {
			f := calleeOf(i)
			return f != nil && f.Name() == "Unlock" && strings.HasSuffix(pathOf(callCommon(i).Args[0]), ".listLock")
		}
		starts := append([]Start{Entry(triggering)}, startsAfter(findIns(triggering, isUnlock))...)
		ss := &Search{Fn: triggering, Stop: isLock}
		wit := ss.Find(starts, isIns(ins), false)
		r.Visited += ss.Visited
		r.obW("C17.R1:counter-bumped-with-the-ring-write", "the trigger counter is incremented inside the listLock section that wrote the ring slot: ring content and count are published together, so the worker never pays one Add's ring entry with another Add's count", triggering, ins, wit, "between listLock.Lock and Unlock")
	}
	// the ring of pending shards has q.size slots for any size (the shard count is the caller's, GOMAXPROCS by default - not a
	// power of two in general): both cursors wrap at q.size - by remainder, or by a comparison with q.size
	{
		isSize := func(v ssa.Value) bool {
			_, ok := loadOfField(stripConv(v), "ShardQueue", "size")
			return ok
		}
		n := 0
		for _, f := range w.Funcs {
			for _, field := range []string{"w", "r"} {
				for _, ins := range findIns(f, func(i ssa.Instruction) bool { return isStoreToField(i, "queueTrigger", field) }) {
					v := stripConv(ins.(*ssa.Store).Val)
					if c, isC := v.(*ssa.Const); isC && f.Name() != "foreach" && !strings.Contains(w.FnName(f), "$") {
						_ = c
						continue // initialisation
					}
					n++
					ok := false
					if b, isB := v.(*ssa.BinOp); isB && b.Op == token.REM && isSize(b.Y) {
						ok = true
					}
					if !ok {
						// wrap by comparison: some branch of this function compares with q.size
						forEachIns(f, func(i ssa.Instruction) {
							if ifi, isIf := i.(*ssa.If); isIf {
								if b, isB := ifi.Cond.(*ssa.BinOp); isB && (isSize(b.X) || isSize(b.Y)) {
									ok = true
								}
							}
						})
					}
					r.ob("C17.R3:ring-cursor-wraps-at-size:"+field+":"+w.FnName(f), "the ring cursors advance modulo q.size (remainder, or an explicit comparison with q.size): a mask or another modulus is right only for particular shard counts and makes a burst overwrite pending entries - the overwritten shard is never drained", f, ins, ok, "wraps at q.size", true)
				}
			}
		}
		if n < 2 {
			r.absentf(" C17: %d ring cursor advances found", n)
		}
	}
}

func isRangeIndex(v ssa.Value) bool {
	phi, ok := v.(*ssa.Phi)
	return ok && phi.Comment == "rangeindex"
}

// triggerOnEmpty: the condition guarding the triggering() call is len(getters[shard]) == 0.
func triggerOnEmpty(fn *ssa.Function, site ssa.Instruction) bool {
	for _, g := range guardChain(site.Block()) {
		v, br := stripNot(g.Cond, g.Branch)
		b, ok := v.(*ssa.BinOp)
		if !ok {
			continue
		}
		c, ok := b.X.(*ssa.Call)
		if !ok {
			continue
		}
		bi, ok := c.Call.Value.(*ssa.Builtin)
		if !ok || bi.Name() != "len" || !isConstEq(0)(b.Y) {
			continue
		}
		if !strings.Contains(pathOf(c.Call.Args[0]), ".getters") {
			continue
		}
		if (b.Op == token.EQL && br) || (b.Op == token.NEQ && !br) || (b.Op == token.GTR && !br) {
			return true
		}
	}
	return false
}
