package main

import (
	"go/token"
	"go/types"
	"sort"

	"golang.org/x/tools/go/ssa"
)

// ---------------------------------------------------------------------------------------------
// Guard facts
// ---------------------------------------------------------------------------------------------

// Atom classifies a boolean SSA value (negations already stripped): ok reports that v is an
// instance of the fact's test, pol is the truth value of v under which the fact holds.
type Atom func(v ssa.Value) (pol bool, ok bool)

func stripNot(v ssa.Value, branch bool) (ssa.Value, bool) {
	for {
		switch x := v.(type) {
		case *ssa.UnOp:
			if x.Op == token.NOT {
				v, branch = x.X, !branch
				continue
			}
		case *ssa.BinOp:
			// b == true / b != false / ...
			if x.Op == token.EQL || x.Op == token.NEQ {
				if c, ok := x.Y.(*ssa.Const); ok && c.Value != nil && isBoolType(c.Type()) {
					k, _ := constInt(c)
					same := (k == 1) == (x.Op == token.EQL)
					v = x.X
					if !same {
						branch = !branch
					}
					continue
				}
			}
		}
		return v, branch
	}
}

func isBoolType(t types.Type) bool {
	b, ok := t.Underlying().(*types.Basic)
	return ok && b.Info()&types.IsBoolean != 0
}

// implies reports whether taking `branch` of a conditional on cond establishes the fact.
func implies(cond ssa.Value, branch bool, a Atom) bool {
	v, br := stripNot(cond, branch)
	if pol, ok := a(v); ok {
		return pol == br
	}
	// a module-local boolean wrapper whose body is one return of a condition ("func (c) closed() bool {
	// return c.status(closing) != 0 }") is looked through, so introducing such a helper changes no verdict
	for depth := 0; depth < 2; depth++ {
		inner, ok := boolWrapperBody(v)
		if !ok {
			return false
		}
		v, br = stripNot(inner, br)
		if pol, ok := a(v); ok {
			return pol == br
		}
	}
	return false
}

// boolWrapperBody: v is a call of a module function that consists of a single block returning one
// boolean expression; returns that expression.
func boolWrapperBody(v ssa.Value) (ssa.Value, bool) {
	c, ok := v.(*ssa.Call)
	if !ok {
		return nil, false
	}
	f := c.Call.StaticCallee()
	if f == nil || f.Blocks == nil || f.Pkg == nil || !isModulePkg(f.Pkg.Pkg) {
		return nil, false
	}
	if f.Signature.Results().Len() != 1 || !isBoolType(f.Signature.Results().At(0).Type()) {
		return nil, false
	}
	if len(f.Blocks) != 1 {
		// a helper that does some work and reports one condition it computed ("closed = buf[0] > 0; if closed {...};
		// return closed"): every return yields the same, non-constant, value
		var v ssa.Value
		for _, b := range f.Blocks {
			ret, ok := b.Instrs[len(b.Instrs)-1].(*ssa.Return)
			if !ok {
				continue
			}
			if len(ret.Results) != 1 {
				return nil, false
			}
			x := ret.Results[0]
			if _, isConst := x.(*ssa.Const); isConst {
				return nil, false
			}
			if _, isPhi := x.(*ssa.Phi); isPhi {
				return nil, false
			}
			if v != nil && v != x {
				return nil, false
			}
			v = x
		}
		return v, v != nil
	}
	b := f.Blocks[0]
	ret, ok := b.Instrs[len(b.Instrs)-1].(*ssa.Return)
	if !ok || len(ret.Results) != 1 {
		return nil, false
	}
	return ret.Results[0], true
}

// anyAtom is the disjunction of atoms: the fact holds if any of them is established.
func anyAtom(as ...Atom) Atom {
	return func(v ssa.Value) (bool, bool) {
		for _, a := range as {
			if pol, ok := a(v); ok {
				return pol, true
			}
		}
		return false, false
	}
}

// callResultAtom: v is a call of fn (optionally with the given constant arguments) and the fact
// holds when it returns `want`.
func callResultAtom(fn *ssa.Function, want bool, args ...int64) Atom {
	return func(v ssa.Value) (bool, bool) {
		c, ok := v.(*ssa.Call)
		if !ok || fn == nil || c.Call.StaticCallee() != fn {
			// the call replaced by the body of the (one-line, boolean) wrapper: "atomic.LoadInt32(&op.state) == 0" for "op.isUnused()"
			if len(args) == 0 && fn != nil {
				if body, isW := wrapperBodyOf(fn); isW {
					bv, bpol := stripNot(body, true)
					if sameShape(bv, v, 0) {
						return want == bpol, true
					}
				}
			}
			return false, false
		}
		for i, a := range args {
			if k, ok := argConst(&c.Call, i); !ok || k != a {
				return false, false
			}
		}
		return want, true
	}
}

// cmpAtom matches  X <op> Y  comparisons where side(X) and side(Y) are recognised by the two
// matchers (in either order; the operator is mirrored accordingly). rel reports for the
// normalised operator (X op Y with X matching mx) whether the fact holds when the comparison
// is true (pol=true), when false (pol=false), or is unrelated (ok=false).
func cmpAtom(mx, my func(ssa.Value) bool, rel func(op token.Token) (pol bool, ok bool)) Atom {
	return func(v ssa.Value) (bool, bool) {
		b, ok := v.(*ssa.BinOp)
		if !ok {
			return false, false
		}
		switch b.Op {
		case token.EQL, token.NEQ, token.LSS, token.LEQ, token.GTR, token.GEQ:
		default:
			return false, false
		}
		if mx(b.X) && my(b.Y) {
			return rel(b.Op)
		}
		if mx(b.Y) && my(b.X) {
			return rel(mirror(b.Op))
		}
		return false, false
	}
}

func mirror(op token.Token) token.Token {
	switch op {
	case token.LSS:
		return token.GTR
	case token.LEQ:
		return token.GEQ
	case token.GTR:
		return token.LSS
	case token.GEQ:
		return token.LEQ
	}
	return op
}

func isConstEq(k int64) func(ssa.Value) bool {
	return func(v ssa.Value) bool {
		n, ok := constInt(v)
		return ok && n == k
	}
}

func isCallOf(fn *ssa.Function, args ...int64) func(ssa.Value) bool {
	var match func(v ssa.Value, depth int) bool
	match = func(v ssa.Value, depth int) bool {
		// a loop variable that is re-read by the same call on every way into the test ("for x = f(); ...; x = f()") is a
		// phi of such calls: still "the result of a call of f"
		if phi, ok := v.(*ssa.Phi); ok && depth < 2 && len(phi.Edges) > 0 {
			for _, e := range phi.Edges {
				if !match(e, depth+1) {
					return false
				}
			}
			return true
		}
		return isCallOf1(fn, args...)(v)
	}
	return func(v ssa.Value) bool { return match(v, 0) }
}

func isCallOf1(fn *ssa.Function, args ...int64) func(ssa.Value) bool {
	return func(v ssa.Value) bool {
		for {
			switch x := v.(type) {
			case *ssa.Convert:
				v = x.X
				continue
			case *ssa.ChangeType:
				v = x.X
				continue
			}
			break
		}
		c, ok := v.(*ssa.Call)
		if !ok || fn == nil || c.Call.StaticCallee() != fn {
			return false
		}
		for i, a := range args {
			if k, ok := argConst(&c.Call, i); !ok || k != a {
				return false
			}
		}
		return true
	}
}

// eqRel: fact "X == Y".   neqRel: fact "X != Y".
func eqRel(op token.Token) (bool, bool) {
	switch op {
	case token.EQL:
		return true, true
	case token.NEQ:
		return false, true
	}
	return false, false
}
func neqRel(op token.Token) (bool, bool) {
	switch op {
	case token.EQL:
		return false, true
	case token.NEQ:
		return true, true
	}
	return false, false
}

// guardWitness returns nil when every path from the function entry to `site` crosses an edge
// that establishes the fact; otherwise a path that reaches the site without it.
func guardWitness(fn *ssa.Function, site ssa.Instruction, a Atom, base *Search) *Witness {
	s := &Search{Fn: fn}
	if base != nil {
		s.Assume, s.Stop = base.Assume, base.Stop
	}
	s.CutEdge = func(ifi *ssa.If, cond ssa.Value, branch bool) bool { return implies(cond, branch, a) }
	w := s.Find([]Start{Entry(fn)}, func(ins ssa.Instruction) bool { return ins == site }, false)
	if base != nil {
		base.Visited += s.Visited
	}
	return w
}

// ---------------------------------------------------------------------------------------------
// Effects and bottom-up summaries
// ---------------------------------------------------------------------------------------------

// Effects assigns labels to instructions. Direct gives the labels an instruction has by
// itself; May/Must add what its (statically resolved, module-local) callees may/must do.
type Effects struct {
	W      *World
	Direct func(ins ssa.Instruction) []string
	// Barrier: callees that are not followed (their effects are what Direct says).
	NoFollow func(fn *ssa.Function) bool
	may      map[*ssa.Function]map[string]bool
	must     map[*ssa.Function]map[string]bool
	impls    map[string][]*ssa.Function
}

func (e *Effects) callees(ins ssa.Instruction) []*ssa.Function {
	switch ins.(type) {
	case *ssa.Call, *ssa.Defer:
	default:
		return nil
	}
	cc := callCommon(ins)
	if f := cc.StaticCallee(); f != nil {
		if f.Blocks == nil || f.Pkg == nil || !isModulePkg(f.Pkg.Pkg) {
			return nil
		}
		if e.NoFollow != nil && e.NoFollow(f) {
			return nil
		}
		return []*ssa.Function{f}
	}
	if cc.IsInvoke() {
		return e.resolveInvoke(cc)
	}
	return nil
}

func isModulePkg(p *types.Package) bool {
	return p != nil && len(p.Path()) >= len(modPath) && p.Path()[:len(modPath)] == modPath
}

// resolveInvoke finds the module-local concrete methods an interface call may dispatch to.
func (e *Effects) resolveInvoke(cc *ssa.CallCommon) []*ssa.Function {
	iface, ok := cc.Value.Type().Underlying().(*types.Interface)
	if !ok {
		return nil
	}
	key := cc.Value.Type().String() + "." + cc.Method.Name()
	if e.impls == nil {
		e.impls = map[string][]*ssa.Function{}
	}
	if r, ok := e.impls[key]; ok {
		return r
	}
	var out []*ssa.Function
	for _, sp := range []*ssa.Package{e.W.Main, e.W.Mux} {
		if sp == nil {
			continue
		}
		for _, m := range sp.Members {
			t, ok := m.(*ssa.Type)
			if !ok {
				continue
			}
			for _, typ := range []types.Type{t.Type(), types.NewPointer(t.Type())} {
				if _, isIface := typ.Underlying().(*types.Interface); isIface {
					continue
				}
				if !types.Implements(typ, iface) {
					continue
				}
				sel := e.W.Prog.MethodSets.MethodSet(typ).Lookup(cc.Method.Pkg(), cc.Method.Name())
				if sel == nil {
					continue
				}
				f := e.W.Prog.MethodValue(sel)
				if f != nil && f.Blocks != nil && (e.NoFollow == nil || !e.NoFollow(f)) {
					dup := false
					for _, o := range out {
						if o == f {
							dup = true
						}
					}
					if !dup {
						out = append(out, f)
					}
				}
			}
		}
	}
	sort.Slice(out, func(i, j int) bool { return out[i].String() < out[j].String() })
	e.impls[key] = out
	return out
}

func (e *Effects) compute() {
	if e.may != nil {
		return
	}
	e.may = map[*ssa.Function]map[string]bool{}
	e.must = map[*ssa.Function]map[string]bool{}
	for _, fn := range e.W.Funcs {
		e.may[fn] = map[string]bool{}
		e.must[fn] = map[string]bool{}
	}
	// may: least fixpoint
	for changed := true; changed; {
		changed = false
		for _, fn := range e.W.Funcs {
			forEachIns(fn, func(ins ssa.Instruction) {
				if _, isGo := ins.(*ssa.Go); isGo {
					return
				}
				for _, l := range e.Direct(ins) {
					if !e.may[fn][l] {
						e.may[fn][l] = true
						changed = true
					}
				}
				for _, c := range e.callees(ins) {
					for l := range e.may[c] {
						if !e.may[fn][l] {
							e.may[fn][l] = true
							changed = true
						}
					}
				}
			})
		}
	}
	// must: least fixpoint (grows from empty, so recursion is treated conservatively)
	for changed := true; changed; {
		changed = false
		for _, fn := range e.W.Funcs {
			for l := range e.may[fn] {
				if e.must[fn][l] {
					continue
				}
				s := &Search{Fn: fn, Stop: func(ins ssa.Instruction) bool { return e.mustIns(ins, l) }}
				if s.Find([]Start{Entry(fn)}, nil, true) == nil {
					e.must[fn][l] = true
					changed = true
				}
			}
		}
	}
}

func (e *Effects) mustIns(ins ssa.Instruction, label string) bool {
	if _, isGo := ins.(*ssa.Go); isGo {
		return false
	}
	for _, l := range e.Direct(ins) {
		if l == label {
			return true
		}
	}
	cs := e.callees(ins)
	if len(cs) == 0 {
		return false
	}
	for _, c := range cs {
		if !e.must[c][label] {
			return false
		}
	}
	return true
}

// Must reports that executing ins (a call or deferred call; not a go statement) always has the effect.
func (e *Effects) Must(ins ssa.Instruction, label string) bool {
	e.compute()
	if _, isDefer := ins.(*ssa.Defer); isDefer {
		return false // the deferred call is an event at function exit, not here
	}
	return e.mustIns(ins, label)
}

// May reports that executing ins can have the effect.
func (e *Effects) May(ins ssa.Instruction, label string) bool {
	e.compute()
	if _, isGo := ins.(*ssa.Go); isGo {
		return false
	}
	if _, isDefer := ins.(*ssa.Defer); isDefer {
		return false
	}
	for _, l := range e.Direct(ins) {
		if l == label {
			return true
		}
	}
	for _, c := range e.callees(ins) {
		if e.may[c][label] {
			return true
		}
	}
	return false
}

func (e *Effects) FnMay(fn *ssa.Function, label string) bool {
	e.compute()
	return e.may[fn][label]
}

func (e *Effects) FnMust(fn *ssa.Function, label string) bool {
	e.compute()
	return e.must[fn][label]
}

// gtRel: fact "X > Y".
func gtRel(op token.Token) (bool, bool) {
	switch op {
	case token.GTR:
		return true, true
	case token.LEQ:
		return false, true
	}
	return false, false
}

// wrapperBodyOf: fn is a single-block module function returning one boolean expression.
func wrapperBodyOf(f *ssa.Function) (ssa.Value, bool) {
	if f == nil || f.Blocks == nil || len(f.Blocks) != 1 || f.Signature.Results().Len() != 1 || !isBoolType(f.Signature.Results().At(0).Type()) {
		return nil, false
	}
	b := f.Blocks[0]
	ret, ok := b.Instrs[len(b.Instrs)-1].(*ssa.Return)
	if !ok || len(ret.Results) != 1 {
		return nil, false
	}
	if _, isConst := ret.Results[0].(*ssa.Const); isConst {
		return nil, false
	}
	return ret.Results[0], true
}

// sameShape: value v (anywhere) computes the same expression as the wrapper body `pat`, the wrapper's parameters standing
// for any value of their type. Only pure expression trees are compared (comparisons, arithmetic, field addresses, loads,
// static and builtin calls, constants).
func sameShape(pat, v ssa.Value, depth int) bool {
	if depth > 8 {
		return false
	}
	if p, ok := pat.(*ssa.Parameter); ok {
		return types.Identical(p.Type(), v.Type())
	}
	switch x := pat.(type) {
	case *ssa.Const:
		y, ok := v.(*ssa.Const)
		if !ok {
			return false
		}
		if x.Value == nil || y.Value == nil {
			return x.Value == nil && y.Value == nil
		}
		return x.Value.ExactString() == y.Value.ExactString()
	case *ssa.BinOp:
		y, ok := v.(*ssa.BinOp)
		if !ok {
			return false
		}
		if x.Op == y.Op && sameShape(x.X, y.X, depth+1) && sameShape(x.Y, y.Y, depth+1) {
			return true
		}
		// mirrored comparison
		mir := map[token.Token]token.Token{token.EQL: token.EQL, token.NEQ: token.NEQ, token.LSS: token.GTR, token.GTR: token.LSS, token.LEQ: token.GEQ, token.GEQ: token.LEQ}
		if m, ok := mir[x.Op]; ok && m == y.Op {
			return sameShape(x.X, y.Y, depth+1) && sameShape(x.Y, y.X, depth+1)
		}
		return false
	case *ssa.UnOp:
		y, ok := v.(*ssa.UnOp)
		return ok && x.Op == y.Op && sameShape(x.X, y.X, depth+1)
	case *ssa.FieldAddr:
		y, ok := v.(*ssa.FieldAddr)
		return ok && x.Field == y.Field && types.Identical(x.X.Type(), y.X.Type()) && sameShape(x.X, y.X, depth+1)
	case *ssa.Field:
		y, ok := v.(*ssa.Field)
		return ok && x.Field == y.Field && types.Identical(x.X.Type(), y.X.Type()) && sameShape(x.X, y.X, depth+1)
	case *ssa.Call:
		y, ok := v.(*ssa.Call)
		if !ok || len(x.Call.Args) != len(y.Call.Args) || x.Call.IsInvoke() || y.Call.IsInvoke() {
			return false
		}
		if xb, ok := x.Call.Value.(*ssa.Builtin); ok {
			yb, ok := y.Call.Value.(*ssa.Builtin)
			if !ok || xb.Name() != yb.Name() {
				return false
			}
		} else if x.Call.StaticCallee() == nil || x.Call.StaticCallee() != y.Call.StaticCallee() {
			return false
		}
		for i := range x.Call.Args {
			if !sameShape(x.Call.Args[i], y.Call.Args[i], depth+1) {
				return false
			}
		}
		return true
	}
	return false
}
