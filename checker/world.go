package main

import (
	"fmt"
	"go/constant"
	"go/token"
	"go/types"
	"os"
	"sort"
	"strings"

	"golang.org/x/tools/go/packages"
	"golang.org/x/tools/go/ssa"
	"golang.org/x/tools/go/ssa/ssautil"
)

const modPath = "github.com/cloudwego/netpoll"

// BuildCfg is one build configuration of /repo that is loaded and analysed.
type BuildCfg struct {
	Name   string
	GOOS   string
	GOARCH string
	Tags   string
}

var buildCfgs = map[string]BuildCfg{
	"linux":       {"linux", "linux", "amd64", ""},
	"linux-race":  {"linux-race", "linux", "amd64", "race"},
	"darwin":      {"darwin", "darwin", "amd64", ""},
	"linux-arm64": {"linux-arm64", "linux", "arm64", ""},
	"freebsd":     {"freebsd", "freebsd", "amd64", ""},
}

// World is one type-checked, SSA-built configuration of the repository.
type World struct {
	Cfg    BuildCfg
	Fset   *token.FileSet
	Prog   *ssa.Program
	Pkgs   []*packages.Package
	Main   *ssa.Package             // github.com/cloudwego/netpoll
	Mux    *ssa.Package             // .../mux
	Runner *ssa.Package             // .../internal/runner
	Funcs  []*ssa.Function          // every source function of the module (incl. anonymous)
	byName map[string]*ssa.Function // "(*connection).Release", "malloc", "mux.(*ShardQueue).Add"
	NFiles int

	callersIdx   map[*ssa.Function]*callerInfo
	ifaceMethods map[string]bool
}

var worlds = map[string]*World{}

type brokenErr struct{ msg string }

func (b brokenErr) Error() string { return b.msg }

// broken aborts the run with exit 2: the check itself cannot decide (load failure, lost anchor, ...).
func broken(format string, a ...interface{}) {
	panic(brokenErr{fmt.Sprintf(format, a...)})
}

func loadWorld(repo, name string) *World {
	if w, ok := worlds[name]; ok {
		return w
	}
	bc, ok := buildCfgs[name]
	if !ok {
		broken("unknown build configuration %q", name)
	}
	env := []string{}
	for _, e := range os.Environ() {
		k := strings.SplitN(e, "=", 2)[0]
		switch k {
		case "GOOS", "GOARCH", "GOFLAGS", "GOWORK", "GOPROXY", "GOSUMDB", "GOTOOLCHAIN", "CGO_ENABLED":
			continue
		}
		env = append(env, e)
	}
	env = append(env, "GOOS="+bc.GOOS, "GOARCH="+bc.GOARCH, "GOFLAGS=-mod=mod", "GOWORK=off",
		"GOPROXY=off", "GOSUMDB=off", "GOTOOLCHAIN=local", "CGO_ENABLED=0")
	cfg := &packages.Config{Mode: packages.LoadSyntax, Dir: repo, Tests: false, Env: env}
	if bc.Tags != "" {
		cfg.BuildFlags = []string{"-tags=" + bc.Tags}
	}
	pkgs, err := packages.Load(cfg, "./...")
	if err != nil {
		broken("config %s: load failed: %v", name, err)
	}
	if len(pkgs) == 0 {
		broken("config %s: zero packages loaded", name)
	}
	nerr := 0
	var firstErr string
	packages.Visit(pkgs, nil, func(p *packages.Package) {
		for _, e := range p.Errors {
			if nerr == 0 {
				firstErr = e.Error()
			}
			nerr++
		}
	})
	if nerr > 0 {
		broken("config %s: %d load/type errors, first: %s", name, nerr, firstErr)
	}
	prog, _ := ssautil.Packages(pkgs, ssa.InstantiateGenerics)
	prog.Build()
	w := &World{Cfg: bc, Fset: prog.Fset, Prog: prog, Pkgs: pkgs, byName: map[string]*ssa.Function{}}
	for _, p := range pkgs {
		sp := prog.Package(p.Types)
		switch p.PkgPath {
		case modPath:
			w.Main = sp
		case modPath + "/mux":
			w.Mux = sp
		case modPath + "/internal/runner":
			w.Runner = sp
		}
		w.NFiles += len(p.Syntax)
	}
	if w.Main == nil {
		broken("config %s: package %s not loaded", name, modPath)
	}
	for fn := range ssautil.AllFunctions(prog) {
		if fn.Pkg == nil || fn.Blocks == nil || fn.Synthetic != "" {
			continue
		}
		if !strings.HasPrefix(fn.Pkg.Pkg.Path(), modPath) {
			continue
		}
		w.Funcs = append(w.Funcs, fn)
		w.byName[w.FnName(fn)] = fn
	}
	sort.Slice(w.Funcs, func(i, j int) bool { return w.FnName(w.Funcs[i]) < w.FnName(w.Funcs[j]) })
	if len(w.Funcs) < 50 {
		broken("config %s: only %d source functions found", name, len(w.Funcs))
	}
	worlds[name] = w
	return w
}

// FnName is the function's name relative to the main package, mux functions get the "mux." prefix.
func (w *World) FnName(fn *ssa.Function) string {
	s := fn.RelString(w.Main.Pkg)
	s = strings.ReplaceAll(s, modPath+"/", "")
	return s
}

// Fn returns the named source function or nil.
func (w *World) Fn(name string) *ssa.Function { return w.byName[name] }

// MustFn returns the named function; a missing anchor makes the check broken (never a violation).
func (w *World) MustFn(name string) *ssa.Function {
	fn := w.byName[name]
	if fn == nil {
		broken("ANCHOR-LOST config=%s function %s not found", w.Cfg.Name, name)
	}
	return fn
}

// ConstInt looks up a package-level constant of the main package (e.g. "processing", "PollDetach").
func (w *World) ConstInt(name string) int64 {
	return w.constIn(w.Main, name)
}

func (w *World) constIn(p *ssa.Package, name string) int64 {
	obj := p.Pkg.Scope().Lookup(name)
	c, ok := obj.(*types.Const)
	if !ok {
		broken("ANCHOR-LOST config=%s constant %s not found", w.Cfg.Name, name)
	}
	v, ok := constant.Int64Val(constant.ToInt(c.Val()))
	if !ok {
		broken("ANCHOR-LOST constant %s not integral", name)
	}
	return v
}

// NamedType looks up a named type in the main package.
func (w *World) NamedType(name string) *types.Named {
	obj := w.Main.Pkg.Scope().Lookup(name)
	if obj == nil {
		broken("ANCHOR-LOST config=%s type %s not found", w.Cfg.Name, name)
	}
	tn, ok := obj.(*types.TypeName)
	if !ok {
		broken("ANCHOR-LOST %s is not a type", name)
	}
	if a, ok := tn.Type().(*types.Alias); ok {
		if n, ok := types.Unalias(a).(*types.Named); ok {
			return n
		}
	}
	n, ok := tn.Type().(*types.Named)
	if !ok {
		broken("ANCHOR-LOST %s is not a named type", name)
	}
	return n
}

// Pos renders an instruction position as file:line relative to the repo.
func (w *World) Pos(p token.Pos) string {
	if !p.IsValid() {
		return "?"
	}
	pp := w.Fset.Position(p)
	f := pp.Filename
	if i := strings.Index(f, "/repo/"); i >= 0 {
		f = f[i+6:]
	} else if i := strings.LastIndex(f, "/"); i >= 0 {
		f = f[i+1:]
	}
	return fmt.Sprintf("%s:%d", f, pp.Line)
}

// InsPos gives the best position for an instruction (falls back to neighbours in the block).
func (w *World) InsPos(ins ssa.Instruction) string {
	if ins == nil {
		return "?"
	}
	if p := ins.Pos(); p.IsValid() {
		return w.Pos(p)
	}
	// operands
	var buf [8]*ssa.Value
	for _, op := range ins.Operands(buf[:0]) {
		if *op != nil {
			if p := (*op).Pos(); p.IsValid() {
				if _, isParam := (*op).(*ssa.Parameter); !isParam {
					return w.Pos(p)
				}
			}
		}
	}
	b := ins.Block()
	idx := -1
	for i, x := range b.Instrs {
		if x == ins {
			idx = i
		}
	}
	for i := idx - 1; i >= 0; i-- {
		if p := b.Instrs[i].Pos(); p.IsValid() {
			return w.Pos(p)
		}
	}
	for i := idx + 1; i < len(b.Instrs); i++ {
		if p := b.Instrs[i].Pos(); p.IsValid() {
			return w.Pos(p)
		}
	}
	return w.Pos(ins.Parent().Pos())
}

// PkgConst returns the value of an integer constant of an imported package (e.g. syscall.EPOLLIN) for this configuration.
func (w *World) PkgConst(path, name string) (int64, bool) {
	for _, imp := range w.Main.Pkg.Imports() {
		if imp.Path() != path {
			continue
		}
		c, ok := imp.Scope().Lookup(name).(*types.Const)
		if !ok {
			return 0, false
		}
		v, ok := constant.Int64Val(constant.ToInt(c.Val()))
		return v, ok
	}
	return 0, false
}

// ---- private helpers of an owner ------------------------------------------------------------------------
//
// The who-may-call tables name the functions that own an effect (close(2), free, a field write ...). Extracting a few
// statements of an owner into a new unexported helper must not change a verdict: a function counts as *part of* an owner
// when it is a named, unexported module function that is never used as a value, cannot be reached through an interface of
// the module, and whose every static call site lies in that owner (or in another such helper of it).

type callerInfo struct {
	callers  map[*ssa.Function]bool
	asValue  bool
	computed bool
}

func (w *World) callerIndex() map[*ssa.Function]*callerInfo {
	if w.callersIdx != nil {
		return w.callersIdx
	}
	idx := map[*ssa.Function]*callerInfo{}
	get := func(f *ssa.Function) *callerInfo {
		ci := idx[f]
		if ci == nil {
			ci = &callerInfo{callers: map[*ssa.Function]bool{}}
			idx[f] = ci
		}
		return ci
	}
	for _, fn := range w.Funcs {
		for _, b := range fn.Blocks {
			for _, ins := range b.Instrs {
				var callee *ssa.Function
				if cc := callCommon(ins); cc != nil {
					callee = cc.StaticCallee()
					if callee != nil {
						get(callee).callers[fn] = true
					}
				}
				var buf [12]*ssa.Value
				for _, op := range ins.Operands(buf[:0]) {
					if f, ok := (*op).(*ssa.Function); ok && f != nil {
						if cc := callCommon(ins); cc != nil && cc.Value == ssa.Value(f) && !cc.IsInvoke() {
							// the callee position of a static call; the same function may also appear among the arguments
							n := 0
							for _, a := range cc.Args {
								if a == ssa.Value(f) {
									n++
								}
							}
							if n == 0 {
								continue
							}
						}
						get(f).asValue = true
					}
				}
			}
		}
	}
	// interface method names of the module: a method with such a name may be invoked dynamically
	w.ifaceMethods = map[string]bool{}
	for _, p := range []*ssa.Package{w.Main, w.Mux, w.Runner} {
		if p == nil {
			continue
		}
		sc := p.Pkg.Scope()
		for _, n := range sc.Names() {
			if tn, ok := sc.Lookup(n).(*types.TypeName); ok {
				if it, ok := tn.Type().Underlying().(*types.Interface); ok {
					for i := 0; i < it.NumMethods(); i++ {
						w.ifaceMethods[it.Method(i).Name()] = true
					}
				}
			}
		}
	}
	w.callersIdx = idx
	return idx
}

// OwnerOf returns the table entry the function belongs to: its own name if listed, else the single listed owner all its
// call sites lie in (one level: a helper of a helper is not attributed - a raw close added deep inside a callee of an owner stays a new site).
func (w *World) OwnerOf(f *ssa.Function, listed func(name string) bool) (string, bool) {
	return w.ownerOf(f, listed, 0)
}

func (w *World) ownerOf(f *ssa.Function, listed func(name string) bool, depth int) (string, bool) {
	name := w.FnName(f)
	if listed(name) {
		return name, true
	}
	if depth >= 1 || f.Parent() != nil {
		return "", false
	}
	idx := w.callerIndex()
	ci := idx[f]
	if ci == nil || ci.asValue || len(ci.callers) == 0 {
		return "", false
	}
	if token.IsExported(f.Name()) || w.ifaceMethods[f.Name()] {
		return "", false
	}
	owner := ""
	for c := range ci.callers {
		if c == f {
			continue
		}
		o, ok := w.ownerOf(c, listed, depth+1)
		if !ok || (owner != "" && o != owner) {
			return "", false
		}
		owner = o
	}
	return owner, owner != ""
}
