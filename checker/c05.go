package main

import (
	"fmt"
	"go/token"
	"strings"

	"golang.org/x/tools/go/ssa"
)

func init() {
	register("C05",
		"Decides the structural premises of the exactly-once teardown argument on every path of the functions involved (handler task, its panic path, onHup, onClose, closeCallback, finalizer, netFD.Close, FDOperator.Control): callbacks only under the processing lock; the closer never unlocks; closed-before-callbacks; closing is monotone; only the runner invokes CloseCallbacks in LIFO link order; close/detach/free once-guards; the unlock -> re-read -> help hand-off after every release of the processing lock; finalizer order. The callback walk ends only at the end of the chain; needLock=true is used only where the caller does not hold the lock; the close wake-ups precede the callbacks (the finalizer waits for the flushing lock); Detach marks the descriptor on every path. Not decided: linearizability of sync/atomic, re-entrant user callbacks, descriptor identity at run time.",
		[]string{"sync/atomic CAS/Load/Store are linearizable", "user callbacks panic only inside the callback call itself"},
		func(r *Run) {
			cfgs := []string{"linux"}
			if r.Tier == "thorough" {
				cfgs = []string{"linux", "linux-race", "darwin", "linux-arm64", "freebsd"}
			}
			for _, c := range cfgs {
				if r.useOpt(c) == nil {
					continue
				}
				c05(r)
			}
		})
}

// closedFact: facts that imply keychain[closing] != 0 on the edge taken.
func closedFact(ro *Roles) Atom {
	statusCall := isCallOf(ro.status, ro.kClosing)
	return anyAtom(
		callResultAtom(ro.isActive, false),
		callResultAtom(ro.isCloseBy, false, ro.whoNone),
		callResultAtom(ro.isCloseBy, true, ro.whoUser),
		callResultAtom(ro.isCloseBy, true, ro.whoPoller),
		cmpAtom(statusCall, isConstEq(ro.whoNone), neqRel),
		cmpAtom(statusCall, isConstEq(ro.whoUser), eqRel),
		cmpAtom(statusCall, isConstEq(ro.whoPoller), eqRel),
	)
}

// activeFact: facts that imply the connection was observed active (closing == 0).
func activeFact(ro *Roles) Atom {
	statusCall := isCallOf(ro.status, ro.kClosing)
	return anyAtom(
		callResultAtom(ro.isActive, true),
		callResultAtom(ro.isCloseBy, true, ro.whoNone),
		cmpAtom(statusCall, isConstEq(ro.whoNone), eqRel),
	)
}

func c05(r *Run) {
	w := r.W
	ro := r.roles()
	px := protoEffects(w)
	kP := ro.kProcessing
	s := &Search{}
	defer func() { r.Visited += s.Visited }()

	// flows in which the callback runner is called
	type flow struct {
		fn        *ssa.Function
		entryHeld bool
	}
	flows := map[*ssa.Function]bool{}
	sites := callSitesOf(w, ro.closeCallback)
	if len(sites) < 4 {
		r.absentf(" C05: only %d call sites of the close-callback runner (expected >= 4)", len(sites))
	}

	// ---- premise for the handler task: it starts with the processing lock held -------------
	// (the closure is created and handed to the runner on the success edge of trylock, with
	// no release in between)
	{
		var mk ssa.Instruction
		forEachIns(ro.onProcess, func(ins ssa.Instruction) {
			if c, ok := ins.(*ssa.Call); ok && c.Call.StaticCallee() == nil {
				for _, k := range dynCallKinds(&c.Call) {
					if k == "global:runner.RunTask" {
						mk = ins
					}
				}
			}
		})
		if mk == nil {
			r.absentf(" C05: runner.RunTask call in onProcess")
		}
		wit := px.heldWitness(ro.onProcess, mk, kP, false, s)
		r.obW("C05.R1:task-entry-held", "the handler task is started only on the success edge of trylock(processing) with no unlock before the hand-over", ro.onProcess, mk, wit, "RunTask call is Held(processing)")
		// after handing over, onProcess itself must not release the lock
		ss := &Search{Fn: ro.onProcess}
		wit = ss.Find([]Start{After(mk)}, func(ins ssa.Instruction) bool { return px.May(ins, lbl("unlock", kP)) }, false)
		s.Visited += ss.Visited
		r.obW("C05.R2:onProcess-no-unlock-after-handover", "after handing the lock to the task, the starter never unlocks processing", ro.onProcess, mk, wit, "no unlock reachable")
	}

	// ---- may-panic points of the task: the panic path starts with the lock held ------------
	nPanicPts := 0
	forEachIns(ro.task, func(ins ssa.Instruction) {
		if _, ok := ins.(*ssa.Call); !ok {
			return
		}
		if !(px.May(ins, "usercb") || px.May(ins, "closecb")) {
			return
		}
		nPanicPts++
		wit := px.heldWitness(ro.task, ins, kP, true, s)
		r.obW("C05.R1:panic-point-held:"+siteKey(w, ins), "every point of the handler task that can run user code (and so panic) is at Held(processing), so the panic path starts with the lock held", ro.task, ins, wit, "Held(processing)")
	})
	if nPanicPts < 3 {
		r.absentf(" C05: only %d user-code points in the handler task", nPanicPts)
	}

	// `panicked` is the only thing that tells the deferred panic path that user code blew up: it is cleared only where no user
	// code can run any more in this task (right before the task returns)
	for _, st := range findIns(ro.task, func(i ssa.Instruction) bool {
		s2, ok := i.(*ssa.Store)
		if !ok {
			return false
		}
		k, okc := constInt(s2.Val)
		return okc && k == 0 && strings.Contains(pathOf(s2.Addr), "panicked")
	}) {
		ss := &Search{Fn: ro.task}
		wit := ss.Find([]Start{After(st)}, func(i ssa.Instruction) bool {
			_, isC := i.(*ssa.Call)
			return isC && (px.May(i, "usercb") || px.May(i, "closecb"))
		}, false)
		s.Visited += ss.Visited
		r.obW("C05.R2:panicked-cleared-only-at-exit", "the task clears its 'panicked' marker only where no user callback can run any more before it returns: cleared earlier, a panic in a later round is ignored by the deferred panic path - the processing lock stays held, the connection is never closed", ro.task, st, wit, "no user callback reachable after panicked = false")
	}
	// ---- R1/R2/R3 per call site of the callback runner ---------------------------------------
	closed := closedFact(ro)
	for _, site := range sites {
		fn := site.Parent()
		flows[fn] = true
		sk := siteKey(w, site)
		needLock, constLock, _ := ro.closeCallbackCall(site)
		if !constLock {
			r.ob("C05.R1:"+sk, "needLock argument of the callback runner must be a constant", fn, site, false, "non-constant needLock: undecided", false)
			continue
		}
		entryHeld := fn == ro.task || fn == ro.taskPanic
		if !needLock {
			wit := px.heldWitness(fn, site, kP, entryHeld, s)
			r.obW("C05.R1:"+sk, "the callback runner is called without taking the lock (needLock=false) only where processing is already held", fn, site, wit, "Held(processing)")
		} else {
			// ... and then the caller must not be holding it: the runner's trylock would fail silently and the callbacks
			// (finalizer included) would never run
			wit := px.heldWitness(fn, site, kP, entryHeld, s)
			r.ob("C05.R1:"+sk, "needLock=true: the runner takes the processing lock itself, so it is not called from a point where the caller already holds that lock (its trylock would fail and nobody would ever run the callbacks)", fn, site, wit != nil, "the caller does not hold processing here", true)
		}
		// R12': a teardown without PollDetach is justified only by "the poller closed it" (its hang-up helper detached the
		// descriptor): outside the hang-up path a constant needDetach=false needs that fact - a Close that lost closeBy may have
		// lost it to another user Close/Detach which has not detached yet, and whoever gets the lock first runs the callbacks
		if nd, okc := argConst(callCommon(site), 1); okc && nd == 0 && fn != ro.onHup {
			statusCall := isCallOf(ro.status, ro.kClosing)
			byPoller := anyAtom(cmpAtom(statusCall, isConstEq(ro.whoPoller), eqRel), callResultAtom(ro.isCloseBy, true, ro.whoPoller))
			base := &Search{Fn: fn}
			wit := guardWitness(fn, site, byPoller, base)
			s.Visited += base.Visited
			r.obW("C05.R12:no-detach-only-if-closed-by-poller:"+w.FnName(fn), "outside the hang-up path the callbacks are run without PollDetach only after seeing that the poller closed the connection: the loser of closeBy(user) may have lost to a concurrent user Close/Detach that has not detached yet - the registration would never be released (and a detached descriptor would stay registered on a slot that is freed and re-used)", fn, site, wit, "guarded by closing == poller")
		}
		// R12'': the task detaches when the user closed the connection (the poller did not): its needDetach argument is the
		// comparison of the closing state with `user`
		if fn == ro.task {
			arg := argVal(callCommon(site), 1)
			okArg := false
			if b, isB := arg.(*ssa.BinOp); isB && b.Op == token.EQL {
				for _, side := range [][2]ssa.Value{{b.X, b.Y}, {b.Y, b.X}} {
					if k, okc := constInt(side[1]); okc && k == ro.whoUser {
						okArg = true
					}
				}
			}
			if c, isC := arg.(*ssa.Call); isC && c.Call.StaticCallee() == ro.isCloseBy {
				if k, okc := argConst(&c.Call, 0); okc && k == ro.whoUser {
					okArg = true
				}
			}
			if k, okc := constInt(arg); okc && k == 1 {
				okArg = true // always detaching is safe: a repeated detach is absorbed
			}
			r.ob("C05.R12:task-detaches-on-user-close:"+sk, "when the handler task runs the callbacks for a connection the user closed, it asks for PollDetach (needDetach = closedBy == user): nobody else deregisters a descriptor that the poller did not hang up", fn, site, okArg, "needDetach is closedBy == user", true)
		}
		// R2: the closer never unlocks
		ss := &Search{Fn: fn}
		wit := ss.Find([]Start{After(site)}, func(ins ssa.Instruction) bool {
			return px.May(ins, lbl("unlock", kP))
		}, false)
		s.Visited += ss.Visited
		r.obW("C05.R2:"+sk, "after the callback runner was called no path reaches unlock(processing): the lock is retired", fn, site, wit, "no unlock(processing) reachable")
		// R3: closed before callbacks
		gs := &Search{Fn: fn, Stop: func(ins ssa.Instruction) bool { return isCall(ins, ro.closeBy) }}
		gs.CutEdge = func(ifi *ssa.If, cond ssa.Value, branch bool) bool { return implies(cond, branch, closed) }
		wit = gs.Find([]Start{Entry(fn)}, func(ins ssa.Instruction) bool { return ins == site }, false)
		s.Visited += gs.Visited
		r.obW("C05.R3:"+sk, "the callback runner is only reached after closing != 0 was established (closeBy executed, status(closing)!=0, or IsActive()==false)", fn, site, wit, "guarded by a closed fact")
	}

	// ---- the callback runner itself -----------------------------------------------------------
	{
		fn := ro.closeCallback
		var runs []ssa.Instruction
		forEachIns(fn, func(ins ssa.Instruction) {
			if userCallbackKind(ins) == "CloseCallback" {
				runs = append(runs, ins)
			}
		})
		if len(runs) == 0 {
			r.absentf(" C05: no CloseCallback invocation inside the callback runner")
		}
		lockOK := callResultAtom(ro.lock, true, kP)
		for i, run := range runs {
			base := &Search{Fn: fn, Assume: paramAssume(fn, map[string]bool{fn.Params[1].Name(): true})}
			wit := guardWitness(fn, run, lockOK, base)
			s.Visited += base.Visited
			r.obW(fmt.Sprintf("C05.R11:runner-locks#%d", i), "with needLock=true the callbacks run only on the success edge of trylock(processing)", fn, run, wit, "guarded by lock(processing)==true")
			// detach precedes callbacks when needDetach
			base2 := &Search{Fn: fn, Assume: paramAssume(fn, map[string]bool{fn.Params[2].Name(): true}),
				Stop: func(ins ssa.Instruction) bool { return ro.isControl(ins, ro.evDetach) }}
			// the poll==nil escape (Close during OnPrepare) is accepted: cut the edge where operator.poll == nil
			pollNil := func(v ssa.Value) (bool, bool) {
				b, ok := v.(*ssa.BinOp)
				if !ok || (b.Op != token.EQL && b.Op != token.NEQ) {
					return false, false
				}
				for _, side := range [][2]ssa.Value{{b.X, b.Y}, {b.Y, b.X}} {
					if _, ok := loadOfField(side[0], "FDOperator", "poll"); ok && isNilConst(side[1]) {
						return b.Op == token.EQL, true
					}
				}
				return false, false
			}
			base2.CutEdge = func(ifi *ssa.If, cond ssa.Value, branch bool) bool { return implies(cond, branch, pollNil) }
			wit = base2.Find([]Start{Entry(fn)}, func(ins ssa.Instruction) bool { return ins == run }, false)
			s.Visited += base2.Visited
			// Control is only called on a registered slot: Close inside OnPrepare finds poll == nil
			for _, ctl := range findIns(fn, func(ins ssa.Instruction) bool { return ro.isControl(ins, ro.evDetach) }) {
				pollSet := func(v ssa.Value) (bool, bool) {
					b, ok := v.(*ssa.BinOp)
					if !ok || (b.Op != token.EQL && b.Op != token.NEQ) || !isNilConst(b.Y) {
						return false, false
					}
					if _, isPoll := loadOfField(b.X, "FDOperator", "poll"); isPoll {
						return b.Op == token.NEQ, true
					}
					return false, false
				}
				r.guarded(fmt.Sprintf("C05.R12:detach-only-when-registered#%d", i), "the callback runner calls Control(PollDetach) only when the slot has a poller (operator.poll != nil): a connection closed inside OnPrepare was never registered, and Control would dereference a nil poller", fn, ctl, pollSet, nil, "guarded by operator.poll != nil")
			}
			// ... and only by the closer that owns the teardown: with needLock=true the detach comes after the processing lock was
			// obtained - a Close that loses the lock to a running handler must not touch the slot, which that handler's finalizer
			// frees and resets
			for _, ctl := range findIns(fn, func(ins ssa.Instruction) bool { return ro.isControl(ins, ro.evDetach) }) {
				needLockParam := func(v ssa.Value) (bool, bool) {
					if p, ok := v.(*ssa.Parameter); ok && p.Parent() == fn && len(fn.Params) > 1 && p == fn.Params[1] {
						return true, true
					}
					return false, false
				}
				ss := &Search{Fn: fn, Stop: func(ins ssa.Instruction) bool { return isKeyCall(ins, ro.lock, kP) }, Assume: needLockParam}
				wit := ss.Find([]Start{Entry(fn)}, isIns(ctl), false)
				s.Visited += ss.Visited
				r.obW(fmt.Sprintf("C05.R12:detach-after-lock#%d", i), "a closer that has to take the processing lock detaches the descriptor only after it got the lock: the loser of that lock leaves the slot alone (the running handler's finalizer frees and resets it)", fn, ctl, wit, "lock(processing) dominates Control(PollDetach) when needLock")
			}
			r.obW(fmt.Sprintf("C05.R12:detach-before-callbacks#%d", i), "with needDetach=true (and a registered poll) Control(PollDetach) precedes the callbacks, which free the slot", fn, run, wit, "Control(PollDetach) on every path")
			// once the lock is held (or was not needed) the callbacks are reached on every path that has callbacks: a failed
			// detach is logged, not returned
			{
				lockFail := callResultAtom(ro.lock, false, kP)
				noCallbacks := func(v ssa.Value) (bool, bool) {
					b, ok := v.(*ssa.BinOp)
					if !ok || (b.Op != token.EQL && b.Op != token.NEQ) || !isNilConst(b.Y) {
						return false, false
					}
					x := b.X
					if ta, ok := x.(*ssa.TypeAssert); ok {
						x = ta.X
					}
					if c, ok := x.(*ssa.Call); ok {
						if a := asAtomic(c); a != nil && a.Op == "Load" && structFieldOfAddr(a.Addr) == "onEvent.closeCallbacks" {
							return b.Op == token.EQL, true
						}
					}
					return false, false
				}
				ss := &Search{Fn: fn, Stop: isIns(run), CutEdge: cutOn(anyAtom(lockFail, noCallbacks))}
				wit := ss.Find([]Start{Entry(fn)}, nil, true)
				s.Visited += ss.Visited
				r.obW(fmt.Sprintf("C05.R11:runner-completes#%d", i), "unless the lock could not be taken (someone else runs them) or no callback is registered, every path of the callback runner reaches the callbacks - a failing PollDetach does not skip the finalizer", fn, run, wit, "callbacks on every path")
			}
			// R5d: the invoked value is node.fn with node walking Load(closeCallbacks) -> .pre
			{
				// the walk ends only at the end of the chain: a callback's return value (or anything else) does not cut it short -
				// the finalizer and the server's untrack callback are nodes of this chain
				endOfChain := func(ifi *ssa.If, cond ssa.Value, branch bool) bool {
					b, ok := cond.(*ssa.BinOp)
					if !ok || (b.Op != token.EQL && b.Op != token.NEQ) {
						return false
					}
					x, y := b.X, b.Y
					if isNilConst(x) {
						x, y = y, x
					}
					if !isNilConst(y) || !isPointerToNamed(x.Type(), "callbackNode") {
						return false
					}
					return branch == (b.Op == token.EQL)
				}
				ss := &Search{Fn: fn, CutEdge: endOfChain}
				wit := ss.Find([]Start{After(run)}, nil, true)
				s.Visited += ss.Visited
				r.obW(fmt.Sprintf("C05.R5:walk-is-complete#%d", i), "once started, the walk over the close callbacks leaves only at the end of the chain (node == nil): no callback's result, and nothing else, cuts it short - the finalizer and the server's untrack callback are nodes of this chain", fn, run, wit, "the only exit after an invocation is the node==nil edge")
			}
			r.ob(fmt.Sprintf("C05.R5:lifo-walk#%d", i), "the runner invokes node.fn for node = latest, node.pre, node.pre.pre ... (reverse registration order)", fn, run, lifoWalk(run), "callee is (*callbackNode).fn of a phi over {Load(closeCallbacks), phi.pre}", true)
		}
	}

	// ---- R5 who-may: CloseCallback invocation, pre links, list head ---------------------------
	for _, f := range w.Funcs {
		forEachIns(f, func(ins ssa.Instruction) {
			if userCallbackKind(ins) == "CloseCallback" && f != ro.closeCallback {
				r.ob("C05.R5:who-invokes:"+siteKey(w, ins), "CloseCallback values are invoked only by the callback runner", f, ins, false, "CloseCallback invoked outside the runner", false)
			}
			if isStoreToField(ins, "callbackNode", "pre") && w.FnName(f) != "(*connection).AddCloseCallback" {
				r.ob("C05.R5:who-links:"+w.FnName(f), "callbackNode.pre is written only when a callback is registered", f, ins, false, "pre written outside AddCloseCallback", false)
			}
			if a := asAtomic(ins); a != nil && a.Op == "Store" && structFieldOfAddr(a.Addr) == "onEvent.closeCallbacks" && w.FnName(f) != "(*connection).AddCloseCallback" {
				r.ob("C05.R5:who-heads:"+w.FnName(f), "the callback list head is stored only when a callback is registered", f, ins, false, "closeCallbacks stored outside AddCloseCallback", false)
			}
		})
	}
	{
		fn := w.MustFn("(*connection).AddCloseCallback")
		okLink := false
		forEachIns(fn, func(ins ssa.Instruction) {
			if st, ok := ins.(*ssa.Store); ok && isStoreToField(ins, "callbackNode", "pre") {
				// value derives from Load(closeCallbacks)
				v := st.Val
				if ta, ok := v.(*ssa.TypeAssert); ok {
					v = ta.X
				}
				if c, ok := v.(*ssa.Call); ok {
					if a := asAtomic(c); a != nil && a.Op == "Load" && structFieldOfAddr(a.Addr) == "onEvent.closeCallbacks" {
						okLink = true
					}
				}
			}
		})
		r.ob("C05.R5:register-links-previous", "a new callback node links to the previous head (pre = Load(closeCallbacks))", fn, nil, okLink, "pre := Load(closeCallbacks)", true)
		// the read of the head and its replacement are one step: two registrations that interleave would link to the same
		// predecessor and one callback (the server's untrack callback races with callbacks added by a handler) would be lost
		isHeadOp := func(op string) func(ssa.Instruction) bool {
			return func(i ssa.Instruction) bool {
				a := asAtomic(i)
				return a != nil && a.Op == op && structFieldOfAddr(a.Addr) == "onEvent.closeCallbacks"
			}
		}
		isMutexLock := func(i ssa.Instruction) bool {
			f := calleeOf(i)
			return f != nil && f.Name() == "Lock" && f.Pkg != nil && f.Pkg.Pkg.Path() == "sync"
		}
		stores := findIns(fn, isHeadOp("Store"))
		cas := findIns(fn, isHeadOp("CompareAndSwap"))
		okAtomic := len(cas) > 0 && len(stores) == 0
		detail := "head replaced by CompareAndSwap on the value that was loaded"
		if !okAtomic && len(stores) > 0 {
			okAtomic = true
			detail = "Load and Store of the head under a mutex"
			for _, site := range append(findIns(fn, isHeadOp("Load")), stores...) {
				ss := &Search{Fn: fn, Stop: isMutexLock}
				if ss.Find([]Start{Entry(fn)}, isIns(site), false) != nil {
					okAtomic = false
					detail = "the head is loaded and stored in two unprotected steps"
				}
				s.Visited += ss.Visited
			}
		}
		// a node is linked to its predecessor before it becomes the head: the walk may start at any moment
		{
			publishes := findIns(fn, func(i ssa.Instruction) bool {
				a := asAtomic(i)
				return a != nil && (a.Op == "Store" || a.Op == "Swap" || a.Op == "CompareAndSwap") && structFieldOfAddr(a.Addr) == "onEvent.closeCallbacks"
			})
			ss := &Search{Fn: fn}
			wit := ss.Find(startsAfter(publishes), func(i ssa.Instruction) bool { return isStoreToField(i, "callbackNode", "pre") }, false)
			s.Visited += ss.Visited
			r.obW("C05.R5:node-linked-before-published", "a callback node gets its link to the previous head before it is published as the new head: a node published first is walked (by a concurrent close) while its link is still being written", fn, nil, wit, "no store to callbackNode.pre after the head was replaced")
		}
		r.ob("C05.R5:register-is-one-step", "registering a close callback reads the list head and replaces it in one atomic step (under a lock, or by compare-and-swap): interleaved registrations do not lose a callback", fn, nil, okAtomic, detail, true)
	}

	// ---- R4 closing is monotone; keys are constants --------------------------------------------
	for _, m := range []*ssa.Function{ro.lock, ro.unlock, ro.stop, ro.force, ro.status, ro.isUnlock} {
		for _, site := range callSitesOf(w, m) {
			k, ok := argConst(callCommon(site), 0)
			if !ok {
				r.ob("C05.R4:const-key:"+siteKey(w, site), "key-lock operations use constant keys", site.Parent(), site, false, "non-constant key", false)
				continue
			}
			if k != ro.kClosing {
				continue
			}
			switch m {
			case ro.lock, ro.unlock, ro.stop:
				r.ob("C05.R4:closing-monotone:"+siteKey(w, site), "closing is only ever moved away from 0: no lock/unlock/stop on it", site.Parent(), site, false, m.Name()+"(closing)", false)
			case ro.force:
				v, okc := argConst(callCommon(site), 1)
				r.ob("C05.R4:closing-monotone:"+siteKey(w, site), "force(closing, v) only with a non-zero constant v", site.Parent(), site, okc && v != 0, fmt.Sprintf("force(closing,%d const=%v)", v, okc), false)
			}
		}
	}
	// keychain is touched only inside locker methods
	nKey := 0
	for _, f := range w.Funcs {
		forEachIns(f, func(ins ssa.Instruction) {
			var buf [8]*ssa.Value
			for _, op := range ins.Operands(buf[:0]) {
				if fa, ok := (*op).(*ssa.FieldAddr); ok {
					if tn, fld, _, _ := fieldOf(fa); tn == "locker" && fld == "keychain" {
						nKey++
						inLocker := f.Signature.Recv() != nil && isPointerToNamed(f.Signature.Recv().Type(), "locker")
						if !inLocker {
							r.ob("C05.R4:keychain-private:"+w.FnName(f), "locker.keychain is accessed only by locker methods", f, ins, false, "keychain accessed outside locker", false)
						}
					}
				}
			}
		})
	}
	r.ob("C05.R4:keychain-private", "locker.keychain is accessed only by locker methods", nil, nil, nKey > 0, fmt.Sprintf("%d accesses, all in locker methods", nKey), false)
	primitiveShapes(r, ro)

	// ---- R6 once-guards ------------------------------------------------------------------------
	c05OnceGuards(r, ro, s)
	// "its descriptor is closed exactly once": the connection copies the accepted/dialed netFD (close-once counter included),
	// so a second closer that goes through the original value is not stopped by the counter - only the finalizer and the
	// dial paths that have no connection yet may close it (C15.R1 census)
	if r.keep == nil {
		r.borrow([]string{"C15.R1:connection-descriptor-closed-by"}, "C15.R1", "C05.R9", func() { c15(r) })
	}

	// ---- R7 delegation is honoured: unlock -> re-read -> help ----------------------------------
	for _, holder := range []*ssa.Function{ro.task, ro.taskPanic} {
		n := 0
		forEachIns(holder, func(ins ssa.Instruction) {
			if !isKeyCall(ins, ro.unlock, kP) {
				return
			}
			if _, ok := ins.(*ssa.Call); !ok {
				return
			}
			n++
			key := fmt.Sprintf("%s#%d", w.FnName(holder), n)
			// (a) every path from the release to exit re-reads closing (status/IsActive/closeBy)
			ss := &Search{Fn: holder, Stop: func(x ssa.Instruction) bool { return px.Must(x, "readClosing") }}
			wit := ss.Find([]Start{After(ins)}, nil, true)
			s.Visited += ss.Visited
			r.obW("C05.R7:reread-after-unlock:"+key, "after unlock(processing) every path re-reads the closing state before the holder exits (the poller may have failed its trylock meanwhile)", holder, ins, wit, "status(closing)/IsActive/closeBy on every path")
		})
		if holder == ro.task && n == 0 {
			r.ob("C05.R7:task-unlocks", "the handler task releases processing when the connection is still open", holder, nil, false, "no unlock(processing) in the handler task", false)
		}
	}
	// (b) in the task: once the re-read says closed, every path to exit tries the lock again
	{
		starts := edgesEstablishingAfter(ro.task, closed, func(ins ssa.Instruction) bool { return isKeyCall(ins, ro.unlock, kP) })
		if len(starts) == 0 {
			r.ob("C05.R7:help-after-reread", "the re-read after unlock has a closed-branch", ro.task, nil, false, "no closed-branch after unlock(processing)", true)
		} else {
			ss := &Search{Fn: ro.task, Stop: func(x ssa.Instruction) bool {
				return isKeyCall(x, ro.lock, kP) || px.Must(x, "closecb")
			}}
			wit := ss.Find(starts, nil, true)
			s.Visited += ss.Visited
			r.obW("C05.R7:help-after-reread", "when the re-read after unlock sees the connection closed, the task tries the processing lock again (to run the callbacks the closer could not)", ro.task, nil, wit, "trylock(processing) on every path from the closed-branch")
		}
		// (c) every successful re-lock ends in unlock or in the callback runner
		for i, st := range edgesEstablishing(ro.task, callResultAtom(ro.lock, true, kP)) {
			ss := &Search{Fn: ro.task, Stop: func(x ssa.Instruction) bool {
				return isKeyCall(x, ro.unlock, kP) || px.Must(x, "closecb")
			}}
			wit := ss.Find([]Start{st}, nil, true)
			s.Visited += ss.Visited
			r.obW(fmt.Sprintf("C05.R7:relock-not-leaked#%d", i), "a processing lock re-taken by the task is either released or retired by running the callbacks", ro.task, st.B.Instrs[0], wit, "unlock or closeCallback on every path")
		}
		// (c') the entry lock too
		ss := &Search{Fn: ro.task, Stop: func(x ssa.Instruction) bool {
			return isKeyCall(x, ro.unlock, kP) || px.Must(x, "closecb")
		}}
		wit := ss.Find([]Start{Entry(ro.task)}, nil, true)
		s.Visited += ss.Visited
		r.obW("C05.R7:entry-lock-not-leaked", "the lock the task starts with is released or retired on every normal path", ro.task, nil, wit, "unlock or closeCallback on every path")
	}
	// (b') the task gives up after unlock(processing) only on an edge where it observed the connection ACTIVE
	for i, u := range findIns(ro.task, func(i ssa.Instruction) bool {
		_, isC := i.(*ssa.Call)
		return isC && isKeyCall(i, ro.unlock, kP)
	}) {
		ss := &Search{Fn: ro.task, Stop: func(x ssa.Instruction) bool { return isKeyCall(x, ro.lock, kP) || px.Must(x, "closecb") }, CutEdge: cutOn(activeFact(ro))}
		wit := ss.Find([]Start{After(u)}, nil, true)
		s.Visited += ss.Visited
		r.obW(fmt.Sprintf("C05.R7:exit-only-if-active#%d", i+1), "after unlock(processing) the task exits without re-trying the lock only on an edge where it observed closing==none: any close (user or poller) that failed to take the lock meanwhile is helped", ro.task, u, wit, "trylock(processing), or an active observation, on every path to exit")
	}
	// (d) the panic path: the active branch must end in Close (closeBy + runner attempt)
	{
		ss := &Search{Fn: ro.taskPanic, Stop: func(x ssa.Instruction) bool { return px.Must(x, "closecb") }}
		pan := panickedAssume(ro.taskPanic, true)
		ss.Assume = pan
		wit := ss.Find([]Start{Entry(ro.taskPanic)}, nil, true)
		s.Visited += ss.Visited
		r.obW("C05.R7:panic-path-closes", "when the handler panicked, every path of the deferred closure reaches the callback runner (directly, or through Close())", ro.taskPanic, nil, wit, "closeCallback on every path")
		// onClose must reach the runner after closeBy either way
		ss2 := &Search{Fn: ro.onClose, Stop: func(x ssa.Instruction) bool { return isCall(x, ro.closeCallback) }}
		wit = ss2.Find([]Start{Entry(ro.onClose)}, nil, true)
		s.Visited += ss2.Visited
		r.obW("C05.R7:onClose-always-attempts", "Close() always attempts the callback runner (whoever closed first)", ro.onClose, nil, wit, "closeCallback on every path")
	}
	// (e) normal exits clear the panicked flag (otherwise the deferred closure tears down again)
	{
		flagStore := func(ins ssa.Instruction) bool {
			st, ok := ins.(*ssa.Store)
			if !ok {
				return false
			}
			v, okc := constInt(st.Val)
			return okc && v == 0 && isPanickedCell(ro, st.Addr)
		}
		ss := &Search{Fn: ro.task, Stop: flagStore}
		wit := ss.Find([]Start{Entry(ro.task)}, nil, true)
		s.Visited += ss.Visited
		r.obW("C05.R2:normal-exit-clears-panicked", "every normal exit of the handler task clears the panicked flag, so the deferred panic path does not run a second teardown", ro.task, nil, wit, "panicked=false before every return")
		// and it is initialised true before any user code
		ss3 := &Search{Fn: ro.task, Stop: func(ins ssa.Instruction) bool {
			st, ok := ins.(*ssa.Store)
			if !ok {
				return false
			}
			v, okc := constInt(st.Val)
			return okc && v == 1 && isPanickedCell(ro, st.Addr)
		}}
		wit = ss3.Find([]Start{Entry(ro.task)}, func(ins ssa.Instruction) bool { return px.May(ins, "usercb") }, false)
		s.Visited += ss3.Visited
		r.obW("C05.R7:panicked-armed", "the panicked flag is set before any user code runs in the task", ro.task, nil, wit, "panicked=true dominates user callbacks")
	}

	// ---- R8 finalizer order ---------------------------------------------------------------------
	{
		fn := ro.finalizer
		stopF := func(ins ssa.Instruction) bool { return isKeyCall(ins, ro.stop, ro.kFlushing) }
		netClose := w.MustFn("(*netFD).Close")
		closeBuf := w.MustFn("(*connection).closeBuffer")
		for _, tgt := range []struct {
			name string
			fn   *ssa.Function
		}{{"operator.Free", ro.opFree}, {"netFD.Close", netClose}, {"closeBuffer", closeBuf}} {
			var site ssa.Instruction
			forEachIns(fn, func(ins ssa.Instruction) {
				if isCall(ins, tgt.fn) {
					site = ins
				}
			})
			if site == nil {
				r.ob("C05.R8:finalizer-calls:"+tgt.name, "the finalizer frees the slot, closes the descriptor and recycles the buffers", fn, nil, false, "call missing", false)
				continue
			}
			ss := &Search{Fn: fn, Stop: stopF}
			wit := ss.Find([]Start{Entry(fn)}, func(ins ssa.Instruction) bool { return ins == site }, false)
			s.Visited += ss.Visited
			r.obW("C05.R8:stop-flushing-first:"+tgt.name, "stop(flushing) precedes freeing the slot / closing the fd / recycling the buffers (nothing is freed under a flush)", fn, site, wit, "stop(flushing) dominates")
			// every path reaches it (teardown is complete)
			ss2 := &Search{Fn: fn, Stop: func(ins ssa.Instruction) bool { return ins == site }}
			wit = ss2.Find([]Start{Entry(fn)}, nil, true)
			s.Visited += ss2.Visited
			r.obW("C05.R8:finalizer-complete:"+tgt.name, "every path of the finalizer performs this step", fn, site, wit, "on every path")
		}
		// slot freed before the descriptor is closed: the fd number cannot be reused while the
		// slot still carries it
		var freeSite, closeSite ssa.Instruction
		forEachIns(fn, func(ins ssa.Instruction) {
			if isCall(ins, ro.opFree) {
				freeSite = ins
			}
			if isCall(ins, netClose) {
				closeSite = ins
			}
		})
		if freeSite != nil && closeSite != nil {
			ss := &Search{Fn: fn, Stop: func(ins ssa.Instruction) bool { return ins == freeSite }}
			wit := ss.Find([]Start{Entry(fn)}, func(ins ssa.Instruction) bool { return ins == closeSite }, false)
			s.Visited += ss.Visited
			r.obW("C05.R8:free-slot-before-close-fd", "the slot is released before close(fd): once the number can be reused no slot refers to it", fn, closeSite, wit, "operator.Free dominates netFD.Close")
		}
		// the finalizer is the first registered callback (runs last): registered from init before anything else can register
		initFn := w.MustFn("(*connection).init")
		initFin := w.MustFn("(*connection).initFinalizer")
		onPrep := w.MustFn("(*connection).onPrepare")
		var prepSite ssa.Instruction
		forEachIns(initFn, func(ins ssa.Instruction) {
			if isCall(ins, onPrep) {
				prepSite = ins
			}
		})
		if prepSite == nil {
			r.absentf(" C05: init does not call onPrepare")
		}
		ss := &Search{Fn: initFn, Stop: func(ins ssa.Instruction) bool { return isCall(ins, initFin) }}
		wit := ss.Find([]Start{Entry(initFn)}, func(ins ssa.Instruction) bool { return ins == prepSite }, false)
		s.Visited += ss.Visited
		r.obW("C05.R8:finalizer-registered-first", "the finalizer is registered before OnPrepare/registration can add other callbacks or close the connection (LIFO: it runs last)", initFn, prepSite, wit, "initFinalizer dominates onPrepare")
	}

	// ---- R10 Detach marks the fd before closing --------------------------------------------------
	{
		fn := w.MustFn("(*connection).Detach")
		closeM := w.Fn("(*connection).Close")
		sites := findIns(fn, func(ins ssa.Instruction) bool {
			return isCallOrDefer(ins, ro.onClose) || (closeM != nil && isCallOrDefer(ins, closeM))
		})
		if len(sites) == 0 {
			r.ob("C05.R10:detach-marks-first", "Detach closes the connection through onClose", fn, nil, false, "onClose call missing", false)
		}
		for _, site := range sites {
			site := site
			ss := &Search{Fn: fn, Stop: isDetachMark}
			wit := ss.Find([]Start{Entry(fn)}, func(ins ssa.Instruction) bool { return ins == site }, false)
			s.Visited += ss.Visited
			r.obW("C05.R10:detach-marks-first", "Detach sets netFD.detaching before the teardown starts on every path, so the finalizer does not close the descriptor that is being handed over (also when the peer already closed)", fn, site, wit, "detaching=true dominates onClose")
		}
	}
	_ = flows
}

// isPanickedCell: addr is the task's `panicked` flag (the bool cell captured by the deferred closure).
func isPanickedCell(ro *Roles, addr ssa.Value) bool {
	a, ok := addr.(*ssa.Alloc)
	if !ok {
		return false
	}
	// captured by the deferred panic closure
	for _, ref := range *a.Referrers() {
		if mc, ok := ref.(*ssa.MakeClosure); ok && mc.Fn == ro.taskPanic {
			return true
		}
	}
	return false
}

// panickedAssume: inside the deferred closure assume the captured flag reads as `val`.
func panickedAssume(fn *ssa.Function, val bool) func(ssa.Value) (bool, bool) {
	return func(v ssa.Value) (bool, bool) {
		u, ok := v.(*ssa.UnOp)
		if !ok || u.Op != token.MUL {
			return false, false
		}
		fv, ok := u.X.(*ssa.FreeVar)
		if !ok || fv.Parent() != fn || !isBoolType(u.Type()) {
			return false, false
		}
		return val, true
	}
}

// edgesEstablishingAfter: edges establishing the fact that are reachable after an instruction
// matching `after`.
func edgesEstablishingAfter(fn *ssa.Function, a Atom, after func(ssa.Instruction) bool) []Start {
	all := edgesEstablishing(fn, a)
	var starts []Start
	forEachIns(fn, func(ins ssa.Instruction) {
		if _, ok := ins.(*ssa.Call); ok && after(ins) {
			starts = append(starts, After(ins))
		}
	})
	if len(starts) == 0 {
		return nil
	}
	// keep the edges whose If block is reachable from `starts` without passing another lock success
	var out []Start
	for _, e := range all {
		// e.B is the successor; the If is the terminator of one of its preds
		var ifi ssa.Instruction
		if e.Pred >= 0 && e.Pred < len(e.B.Preds) {
			pb := e.B.Preds[e.Pred]
			ifi = pb.Instrs[len(pb.Instrs)-1]
		}
		if ifi == nil {
			continue
		}
		ss := &Search{Fn: fn}
		if ss.Find(starts, func(x ssa.Instruction) bool { return x == ifi }, false) != nil {
			out = append(out, e)
		}
	}
	return out
}

// lifoWalk: the callee of `run` is a load of callbackNode.fn from a phi whose edges are the
// list head and phi.pre.
func lifoWalk(run ssa.Instruction) bool {
	cc := callCommon(run)
	base, ok := loadOfField(cc.Value, "callbackNode", "fn")
	if !ok {
		return false
	}
	phi, ok := base.(*ssa.Phi)
	if !ok {
		return false
	}
	headOK, nextOK := false, false
	for _, e := range phi.Edges {
		if b, ok := loadOfField(e, "callbackNode", "pre"); ok && b == ssa.Value(phi) {
			nextOK = true
			continue
		}
		v := e
		if ta, ok := v.(*ssa.TypeAssert); ok {
			v = ta.X
		}
		if c, ok := v.(*ssa.Call); ok {
			if a := asAtomic(c); a != nil && a.Op == "Load" && structFieldOfAddr(a.Addr) == "onEvent.closeCallbacks" {
				headOK = true
				continue
			}
		}
		return false
	}
	return headOK && nextOK
}

// primitiveShapes checks that the key-lock primitives are the atomics the protocol argument
// assumes.
func primitiveShapes(r *Run, ro *Roles) {
	type want struct {
		fn   *ssa.Function
		op   string
		desc string
		chk  func(a *atomicOp) bool
	}
	isK := func(v ssa.Value, k int64) bool { n, ok := constInt(v); return ok && n == k }
	isParam := func(v ssa.Value) bool {
		for {
			switch x := v.(type) {
			case *ssa.Convert:
				v = x.X
				continue
			case *ssa.ChangeType:
				v = x.X
				continue
			}
			break
		}
		_, ok := v.(*ssa.Parameter)
		return ok
	}
	ws := []want{
		{ro.lock, "CompareAndSwap", "lock(k) = CAS(&keychain[k], 0, 1)", func(a *atomicOp) bool { return isK(a.Args[0], 0) && isK(a.Args[1], 1) }},
		{ro.unlock, "Store", "unlock(k) = Store(&keychain[k], 0)", func(a *atomicOp) bool { return isK(a.Args[0], 0) }},
		{ro.closeBy, "CompareAndSwap", "closeBy(w) = CAS(&keychain[closing], 0, w)", func(a *atomicOp) bool { return isK(a.Args[0], 0) && isParam(a.Args[1]) }},
		{ro.force, "Store", "force(k,v) = Store(&keychain[k], v)", func(a *atomicOp) bool { return isParam(a.Args[0]) }},
		{ro.status, "Load", "status(k) = Load(&keychain[k])", func(a *atomicOp) bool { return true }},
		{ro.isCloseBy, "Load", "isCloseBy(w) = Load(&keychain[closing]) == w", func(a *atomicOp) bool { return true }},
		{ro.stop, "CompareAndSwap", "stop(k) = spin CAS(&keychain[k], 0, 2)", func(a *atomicOp) bool { return isK(a.Args[0], 0) && isK(a.Args[1], 2) }},
	}
	for _, x := range ws {
		n, good, writes := 0, 0, 0
		forEachIns(x.fn, func(ins ssa.Instruction) {
			a := asAtomic(ins)
			if a == nil {
				if st, ok := ins.(*ssa.Store); ok {
					if structFieldOfAddr(st.Addr) == "locker.keychain" {
						writes++
					}
				}
				return
			}
			if structFieldOfAddr(a.Addr) != "locker.keychain" {
				return
			}
			if a.Op == x.op {
				n++
				if x.chk(a) {
					good++
				}
			} else if a.Op != "Load" {
				writes++
			}
		})
		// closeBy / isCloseBy must address the closing key
		keyOK := true
		if x.fn == ro.closeBy || x.fn == ro.isCloseBy {
			keyOK = false
			forEachIns(x.fn, func(ins ssa.Instruction) {
				if ia, ok := ins.(*ssa.IndexAddr); ok {
					if isK(ia.Index, ro.kClosing) {
						keyOK = true
					}
				}
			})
		}
		ok := n >= 1 && good == n && writes == 0 && keyOK
		r.ob("C05.R4:primitive:"+x.fn.Name(), x.desc+" and nothing else writes the key", x.fn, nil, ok, fmt.Sprintf("%d matching atomics, %d well-formed, %d other writes, key ok=%v", n, good, writes, keyOK), true)
	}
	// IsActive is isCloseBy(none)
	okIA := false
	forEachIns(ro.isActive, func(ins ssa.Instruction) {
		if ret, ok := ins.(*ssa.Return); ok && len(ret.Results) == 1 {
			if isCallOf(ro.isCloseBy, ro.whoNone)(ret.Results[0]) {
				okIA = true
			}
		}
	})
	r.ob("C05.R4:IsActive-is-closing-none", "IsActive() == (closing == none)", ro.isActive, nil, okIA, "returns isCloseBy(none)", true)
}

func c05OnceGuards(r *Run, ro *Roles, s *Search) {
	w := r.W
	// netFD.Close: syscall.Close guarded by closed counter == 1, !detaching, fd > 2
	fn := w.MustFn("(*netFD).Close")
	var sysClose []ssa.Instruction
	forEachIns(fn, func(ins ssa.Instruction) {
		if f := calleeOf(ins); f != nil && f.Pkg != nil && f.Pkg.Pkg.Path() == "syscall" && f.Name() == "Close" {
			sysClose = append(sysClose, ins)
		}
	})
	if len(sysClose) == 0 {
		r.absentf(" C05: netFD.Close does not call syscall.Close")
	}
	isAddOn := func(field string) func(ssa.Value) bool {
		return func(v ssa.Value) bool {
			c, ok := v.(*ssa.Call)
			if !ok {
				return false
			}
			a := asAtomic(c)
			return a != nil && a.Op == "Add" && structFieldOfAddr(a.Addr) == field && len(a.Args) == 1 && isConstEq(1)(a.Args[0])
		}
	}
	first := cmpAtom(isAddOn("netFD.closed"), isConstEq(1), eqRel)
	notDetaching := anyAtom(func(v ssa.Value) (bool, bool) {
		if _, ok := loadOfField(v, "netFD", "detaching"); ok {
			return false, true
		}
		return false, false
	}, cmpAtom(func(v ssa.Value) bool {
		c, ok := v.(*ssa.Call)
		if !ok {
			return false
		}
		a := asAtomic(c)
		return a != nil && a.Op == "Load" && structFieldOfAddr(a.Addr) == "netFD.detaching"
	}, isConstEq(0), eqRel))
	for i, site := range sysClose {
		wit := guardWitness(fn, site, first, s)
		r.obW(fmt.Sprintf("C05.R6:close-once#%d", i), "close(fd) is issued only by the caller that moved the closed counter from 0 to 1", fn, site, wit, "guarded by AddUint32(&closed,1)==1")
		wit = guardWitness(fn, site, notDetaching, s)
		r.obW(fmt.Sprintf("C05.R6:not-when-detached#%d", i), "a detached descriptor is not closed", fn, site, wit, "guarded by !detaching")
	}
	// FDOperator.Control: a second PollDetach does not reach the poller
	fc := ro.opControl
	var pollCtl []ssa.Instruction
	forEachIns(fc, func(ins ssa.Instruction) {
		if cc := callCommon(ins); cc != nil && cc.IsInvoke() && cc.Method.Name() == "Control" {
			pollCtl = append(pollCtl, ins)
		}
	})
	if len(pollCtl) == 0 {
		r.absentf(" C05: FDOperator.Control does not invoke Poll.Control")
	}
	again := cmpAtom(isAddOn("FDOperator.detached"), isConstEq(1), func(op token.Token) (bool, bool) {
		switch op {
		case token.GTR:
			return true, true
		case token.LEQ:
			return false, true
		case token.EQL:
			return false, true
		case token.NEQ:
			return true, true
		}
		return false, false
	})
	evIsDetach := func(v ssa.Value) (bool, bool) {
		b, ok := v.(*ssa.BinOp)
		if !ok || b.Op != token.EQL {
			return false, false
		}
		if _, isP := b.X.(*ssa.Parameter); isP && isConstEq(ro.evDetach)(b.Y) {
			return true, true
		}
		return false, false
	}
	for i, site := range pollCtl {
		starts := edgesEstablishing(fc, again)
		ok := len(starts) > 0
		var wit *Witness
		if ok {
			ss := &Search{Fn: fc}
			wit = ss.Find(starts, func(ins ssa.Instruction) bool { return ins == site }, false)
			s.Visited += ss.Visited
		}
		if !ok {
			r.ob(fmt.Sprintf("C05.R6:detach-once#%d", i), "a repeated PollDetach is absorbed by the detached counter", fc, site, false, "no test of the detached counter", true)
		} else {
			r.obW(fmt.Sprintf("C05.R6:detach-once#%d", i), "a repeated PollDetach (detached counter already > 0) never reaches poll.Control", fc, site, wit, "poll.Control unreachable from the counter>1 edge")
		}
		// the counter is bumped on every PollDetach path
		ss := &Search{Fn: fc, Stop: func(ins ssa.Instruction) bool {
			c, ok := ins.(*ssa.Call)
			return ok && isAddOn("FDOperator.detached")(c)
		}}
		ss.Assume = func(v ssa.Value) (bool, bool) {
			if pol, ok := evIsDetach(v); ok {
				return pol, true
			}
			return false, false
		}
		wit = ss.Find([]Start{Entry(fc)}, func(ins ssa.Instruction) bool { return ins == site }, false)
		s.Visited += ss.Visited
		r.obW(fmt.Sprintf("C05.R6:detach-counted#%d", i), "every PollDetach passes the detached counter before reaching the poller", fc, site, wit, "AddInt32(&detached,1) on every PollDetach path")
	}
	// who frees slots
	for _, site := range callSitesOf(w, ro.opFree) {
		f := site.Parent()
		name := w.FnName(f)
		ok := f == ro.finalizer || (f.Parent() != nil && w.FnName(f.Parent()) == "(*netFD).connect")
		r.ob("C05.R6:who-frees-slot:"+name, "FDOperator.Free is called only by the connection finalizer and by the dial path's deferred clean-up", f, site, ok, "caller "+name, false)
	}
	// Free always hands the slot back (a "not in use" slot may be one that was allocated but never registered: a connection
	// closed inside OnPrepare), and the poller detaches a hung-up descriptor before it gives the slot's token back (after
	// that a concurrent Close may free the slot under it: C11.R1)
	{
		fr := ro.opFree
		isPollFree := func(i ssa.Instruction) bool {
			cc := callCommon(i)
			return cc != nil && cc.IsInvoke() && cc.Method.Name() == "Free"
		}
		r.mustPass("C05.R6:free-always-returns-the-slot", "FDOperator.Free hands the slot to its poller's cache on every path: a slot that was allocated but never registered looks 'unused' too, and skipping it leaks the slot of every connection closed or detached inside OnPrepare", fr, nil, []Start{Entry(fr)}, isPollFree, nil, nil, "poll.Free(op) on every path")
	}
	if r.keep == nil {
		r.borrow([]string{"C11.R1:detach-before-release", "C11.R1:queue-before-release"}, "C11.R1", "C05.R14", func() { c11(r) })
		r.borrow([]string{"C13.R3:visited-is-closed-or-counted"}, "C13.R3", "C05.R15", func() { c13(r) })
	}
	// the finalizer waits for the flushing lock (stop(flushing) spins): whoever is parked in Flush must have been woken
	// before the callbacks run, or the descriptor is never closed and Close never returns
	if r.keep == nil {
		closeWakeRules(r, "C05.R13")
	}
}

// isDetachMark: the instruction sets netFD.detaching (plain store of true, or an atomic store of 1).
func isDetachMark(ins ssa.Instruction) bool {
	if st, ok := ins.(*ssa.Store); ok && isStoreToField(ins, "netFD", "detaching") {
		v, okc := constInt(st.Val)
		return okc && v == 1
	}
	if a := asAtomic(ins); a != nil && (a.Op == "Store" || a.Op == "Swap") && structFieldOfAddr(a.Addr) == "netFD.detaching" {
		v, okc := constInt(a.Args[0])
		return okc && v == 1
	}
	return false
}
