package main

import (
	"fmt"
	"go/token"
	"go/types"
	"strings"

	"golang.org/x/tools/go/ssa"
)

func init() {
	register("C02",
		"Decides structural necessary conditions of 'zero-copy results stay intact until Release': (R1) wherever node memory escapes to the caller (a node.Next/Peek/Refer result or a direct node.buf slice that is not merely the source of a copy) the node was marked flagReadExposed first; (R2) outside the release set a node is recycled only when it is not exposed (readCopy); (R3) a pool block held in a field from which read results are handed out (caches, cachePeek) is freed only by Release; (R4) when a node's buf is set to a slice of another node's buf the two are linked by origin and a shared reference count; (R5) Refer always increments the root's count and node.Release frees only when the count reaches zero; (R6) a block from which results were handed out is not truncated for re-use before Release. Open known findings: R4 for the WriteDirect split and R6 for the Peek cache (both confirmed by findings/F8_F11_zero_copy_results_demo_test.go). The exposure mark is set after the last move of the cursor that names the node (the marked node is the one handed out); a block that went back to the pool is not kept referenced (C03.R2). Not decided: that content is actually unchanged (needs run-time poisoning), cross-goroutine release orders beyond the count shape.",
		[]string{"mcache.Free may re-issue a block immediately"},
		func(r *Run) {
			cfgs := []string{"linux"}
			if r.Tier == "thorough" {
				cfgs = []string{"linux", "linux-race", "darwin"}
			}
			for _, c := range cfgs {
				if r.useOpt(c) == nil {
					continue
				}
				c02(r)
			}
		})
}

// escapes: does the []byte value flow anywhere other than into the source operand of copy/append?
func escapes(v ssa.Value, depth int) bool {
	if depth > 5 {
		return true
	}
	refs := v.Referrers()
	if refs == nil {
		return false
	}
	for _, ref := range *refs {
		switch x := ref.(type) {
		case *ssa.Slice:
			if escapes(x, depth+1) {
				return true
			}
		case *ssa.Call:
			if bi, ok := x.Call.Value.(*ssa.Builtin); ok {
				switch bi.Name() {
				case "copy":
					if len(x.Call.Args) == 2 && x.Call.Args[1] == v && x.Call.Args[0] != v {
						continue
					}
					return true
				case "append":
					if len(x.Call.Args) == 2 && x.Call.Args[1] == v && x.Call.Args[0] != v {
						continue
					}
					return true
				case "len", "cap":
					continue
				}
			}
			return true
		case *ssa.IndexAddr, *ssa.Index:
			// reading single elements: p[0]
			if ia, ok := x.(*ssa.IndexAddr); ok {
				onlyLoads := true
				for _, r2 := range *ia.Referrers() {
					if u, ok := r2.(*ssa.UnOp); !ok || u.Op != token.MUL {
						onlyLoads = false
					}
				}
				if onlyLoads {
					continue
				}
			}
			return true
		case *ssa.DebugRef:
			continue
		default:
			return true
		}
	}
	return false
}

func c02(r *Run) {
	w := r.W
	exposed := w.ConstInt("flagReadExposed")
	setFlag := w.MustFn("(*linkBufferNode).setFlag")
	nodeNext := w.MustFn("(*linkBufferNode).Next")
	nodePeek := w.MustFn("(*linkBufferNode).Peek")
	nodeRefer := w.MustFn("(*linkBufferNode).Refer")
	nodeRelease := w.MustFn("(*linkBufferNode).Release")
	freeFn := w.MustFn("free")

	marks := func(path string) func(ssa.Instruction) bool {
		return func(i ssa.Instruction) bool {
			if !isCall(i, setFlag) {
				return false
			}
			cc := callCommon(i)
			k, ok := constInt(cc.Args[1])
			return ok && k == exposed && stablePath(cc.Args[0]) == path
		}
	}

	// fieldWriters: module functions that may (transitively) store into UnsafeLinkBuffer.<field>
	fwCache := map[string]map[*ssa.Function]bool{}
	fieldWriters := func(field string) map[*ssa.Function]bool {
		if m, ok := fwCache[field]; ok {
			return m
		}
		m := map[*ssa.Function]bool{}
		for _, f := range w.Funcs {
			forEachIns(f, func(i ssa.Instruction) {
				if isStoreToField(i, "UnsafeLinkBuffer", field) {
					m[f] = true
				}
			})
		}
		for changed := true; changed; {
			changed = false
			for _, f := range w.Funcs {
				if m[f] {
					continue
				}
				forEachIns(f, func(i ssa.Instruction) {
					if _, isDefer := i.(*ssa.Defer); isDefer {
						return
					}
					if c := calleeOf(i); c != nil && m[c] && !m[f] {
						m[f] = true
						changed = true
					}
				})
			}
		}
		fwCache[field] = m
		return m
	}
	// markedNodeIsHandedOut: when the node is named through a cursor field (b.read, b.flush), the mark
	// must come after the last re-assignment of that cursor - otherwise another node is marked than
	// the one whose memory leaves.
	markedNodeIsHandedOut := func(key string, fn *ssa.Function, site ssa.Instruction, path string) {
		dot := strings.LastIndex(path, ".")
		if dot < 0 || strings.Contains(path, ":") {
			return
		}
		base, field := path[:dot], path[dot+1:]
		fw := fieldWriters(field)
		var wit *Witness
		n := 0
		forEachIns(fn, func(i ssa.Instruction) {
			if wit != nil {
				return
			}
			moves := false
			if st, ok := i.(*ssa.Store); ok && isStoreToField(i, "UnsafeLinkBuffer", field) {
				if _, _, b, ok := fieldOf(st.Addr); ok && stablePath(b) == base {
					moves = true
				}
			} else if _, isDefer := i.(*ssa.Defer); !isDefer {
				if c := calleeOf(i); c != nil && fw[c] {
					moves = true
				}
			}
			if !moves {
				return
			}
			n++
			ss := &Search{Fn: fn, Stop: marks(path)}
			if p := ss.Find([]Start{After(i)}, isIns(site), false); p != nil {
				wit = p
			}
			r.Visited += ss.Visited
		})
		r.obW(key, "the node that is marked is the node whose memory is handed out: no re-assignment of the cursor ("+path+") lies between the mark and the hand-out", fn, site, wit, fmt.Sprintf("%d cursor moves in the function, each followed by a fresh mark before this hand-out", n))
	}

	// ---- R1 exposure marking ------------------------------------------------------------------------
	nEsc := 0
	for _, name := range []string{"Next", "Peek", "Slice", "GetBytes", "Until", "ReadByte", "readBinary", "readCopy", "Skip", "ReadString", "ReadBinary"} {
		fn := bufMethod(w, name)
		for _, ins := range allIns(fn) {
			c, ok := ins.(*ssa.Call)
			if !ok {
				continue
			}
			cal := c.Call.StaticCallee()
			if cal != nodeNext && cal != nodePeek && cal != nodeRefer {
				continue
			}
			esc := cal == nodeRefer || escapes(c, 0)
			if !esc {
				continue
			}
			nEsc++
			path := stablePath(c.Call.Args[0])
			r.precedes("C02.R1:exposed-before-escape:"+siteKey(w, ins), "node memory that is handed to the caller (not merely copied) comes from a node that was marked flagReadExposed first, so copying reads do not recycle it", fn, ins, marks(path), nil, "setFlag(flagReadExposed) on "+path+" dominates")
			markedNodeIsHandedOut("C02.R1:marked-node-is-handed-out:"+siteKey(w, ins), fn, ins, path)
		}
		// direct node.buf[...] slices that escape
		for _, ins := range allIns(fn) {
			sl, ok := ins.(*ssa.Slice)
			if !ok {
				continue
			}
			base, ok := loadOfField(sl.X, "linkBufferNode", "buf")
			if !ok || !escapes(sl, 0) {
				continue
			}
			if name == "Bytes" {
				continue
			}
			nEsc++
			path := stablePath(base)
			r.precedes("C02.R1:exposed-before-escape:"+siteKey(w, ins)+":slice:"+path, "a direct slice of node.buf that is handed out comes from a node marked flagReadExposed first", fn, ins, marks(path), nil, "setFlag(flagReadExposed) on "+path+" dominates")
			markedNodeIsHandedOut("C02.R1:marked-node-is-handed-out:"+siteKey(w, ins)+":slice:"+path, fn, ins, path)
		}
	}
	if nEsc < 6 {
		r.absentf(" C02: only %d escaping node-memory sites", nEsc)
	}

	// ---- R2 recycling respects exposure --------------------------------------------------------------
	releaseSet := map[string]string{
		"(*UnsafeLinkBuffer).Release":     "the reader's Release",
		"(*UnsafeLinkBuffer).Close":       "recycling the whole buffer",
		"(*UnsafeLinkBuffer).WriteBuffer": "clean-up of the donor's consumed head and unused tail",
		"(*linkBufferNode).Release":       "origin recursion",
	}
	readExposed := w.MustFn("(*linkBufferNode).readExposed")
	for _, site := range callSitesOf(w, nodeRelease) {
		fn := site.Parent()
		name := w.FnName(fn)
		if releaseSet[name] != "" {
			r.ob("C02.R2:who-recycles:"+siteKey(w, site), "nodes are recycled by the release set, or elsewhere only when not exposed", fn, site, true, releaseSet[name], false)
			continue
		}
		// the node that was looked at is the node that is recycled (same value): a test of the head node says nothing about
		// the nodes behind it
		recv := callCommon(site).Args[0]
		sameNodeUnexposed := func(v ssa.Value) (bool, bool) {
			c, ok := v.(*ssa.Call)
			if !ok || c.Call.StaticCallee() != readExposed || len(c.Call.Args) == 0 || c.Call.Args[0] != recv {
				return false, false
			}
			return false, true
		}
		r.guarded("C02.R2:recycle-only-unexposed:"+siteKey(w, site), "outside Release/Close a consumed node is recycled only after seeing that this node's memory was never handed out (readExposed()==false on the node that is released)", fn, site, sameNodeUnexposed, nil, "guarded by readExposed()==false on the same node")
	}

	// re-using a node's block in place (node.Reset: offsets to 0, buf truncated) overwrites whatever was handed out from
	// it: like recycling, only after seeing that nothing of it is exposed (today nothing calls Reset; a new caller is judged)
	if nodeReset := w.Fn("(*linkBufferNode).Reset"); nodeReset != nil {
		for _, site := range callSitesOf(w, nodeReset) {
			fn := site.Parent()
			r.guarded("C02.R2:reset-only-unexposed:"+siteKey(w, site), "a node is reset for re-use in place only after seeing that its memory was never handed out (readExposed()==false): Reset itself only looks at Slice references, not at unreleased Next/Peek results", fn, site, callResultAtom(readExposed, false), nil, "guarded by readExposed()==false")
		}
	}
	// ---- R3 exposed pool blocks are freed only on release --------------------------------------------
	// exposed fields: a Reader method returns a slice of a value that is also stored into (or loaded from) the field
	exposedFields := map[string]bool{}
	for _, name := range []string{"Next", "Peek"} {
		fn := bufMethod(w, name)
		forEachIns(fn, func(i ssa.Instruction) {
			ret, ok := i.(*ssa.Return)
			if !ok || len(ret.Results) == 0 {
				return
			}
			v := ret.Results[0]
			for d := 0; d < 4; d++ {
				if sl, ok := v.(*ssa.Slice); ok {
					v = sl.X
					continue
				}
				break
			}
			for _, fld := range []string{"caches", "cachePeek"} {
				if flowsToField(fn, v, fld) {
					exposedFields[fld] = true
				}
			}
		})
	}
	r.ob("C02.R3:exposed-fields", "results of multi-node Next/Peek are backed by blocks kept in caches / cachePeek", nil, nil, exposedFields["caches"] && exposedFields["cachePeek"], fmt.Sprintf("exposed fields: %v", exposedFields), true)
	for _, site := range callSitesOf(w, freeFn) {
		fn := site.Parent()
		arg := callCommon(site).Args[0]
		src := stablePath(arg)
		fromExposed := strings.Contains(src, ".caches") || strings.Contains(src, ".cachePeek")
		if !fromExposed {
			continue
		}
		_, okWho := w.OwnerOf(fn, func(n string) bool { return n == "(*UnsafeLinkBuffer).Release" })
		r.ob("C02.R3:"+fn.Name()+":free("+fieldTail(src)+")", "a pool block that backs read results (caches, cachePeek) is freed only by Release: until then a caller may still be reading it", fn, site, okWho, "free("+src+") in "+w.FnName(fn), false)
	}

	// ---- R4 shared blocks share a count -----------------------------------------------------------------
	for _, fn := range w.Funcs {
		for _, ins := range allIns(fn) {
			st, ok := ins.(*ssa.Store)
			if !ok || !isStoreToField(ins, "linkBufferNode", "buf") {
				continue
			}
			dst := st.Addr.(*ssa.FieldAddr).X
			sl, ok := st.Val.(*ssa.Slice)
			if !ok {
				continue
			}
			srcNode, ok := loadOfField(sl.X, "linkBufferNode", "buf")
			if !ok {
				continue
			}
			if stablePath(srcNode) == stablePath(dst) || srcNode == dst {
				continue // re-slicing its own memory
			}
			// dst shares srcNode's block: dst.origin must be linked and a count incremented in this function
			linked := false
			counted := false
			forEachIns(fn, func(j ssa.Instruction) {
				if s2, ok := j.(*ssa.Store); ok && isStoreToField(j, "linkBufferNode", "origin") && s2.Addr.(*ssa.FieldAddr).X == dst {
					linked = true
				}
				if a := asAtomic(j); a != nil && a.Op == "Add" && structFieldOfAddr(a.Addr) == "linkBufferNode.refer" {
					counted = true
				}
			})
			if !(linked && counted) {
				// without a shared count the design relies on FIFO release order: the later node (the fresh one) must
				// become the owner and the earlier one must give ownership up - in this same function
				setF, unsetF := false, false
				unm := w.ConstInt("flagUnmanaged")
				forEachIns(fn, func(j ssa.Instruction) {
					cc := callCommon(j)
					if cc == nil || cc.StaticCallee() == nil || len(cc.Args) < 2 {
						return
					}
					k, okc := constInt(cc.Args[1])
					if !okc || k != unm {
						return
					}
					switch cc.StaticCallee().Name() {
					case "setFlag":
						if cc.Args[0] == srcNode {
							setF = true
						}
					case "unsetFlag":
						if cc.Args[0] == dst {
							unsetF = true
						}
					}
				})
				r.ob("C02.R4:"+fn.Name()+":unlinked-split-transfers-ownership", "where two nodes share a block without a shared count, ownership is handed to the later node of the chain (fresh node made the owner, the earlier node marked unmanaged): the block is then at least not freed while the later part is still unsent/unread", fn, ins, setF && unsetF, fmt.Sprintf("donor.setFlag(unmanaged)=%v, new.unsetFlag(unmanaged)=%v", setF, unsetF), true)
			}
			key := "C02.R4:" + fn.Name() + ":split-shares-block"
			r.ob(key, "when a node is given a slice of another node's block, the two are tied by origin and a shared reference count (as Refer does), so the block is freed only after every reader of either part released it", fn, ins, linked && counted, fmt.Sprintf("origin linked=%v, count incremented=%v", linked, counted), true)
		}
	}

	// ---- R5 reference counting shape -----------------------------------------------------------------------
	{
		incs := func(i ssa.Instruction) bool {
			a := asAtomic(i)
			if a == nil || a.Op != "Add" || structFieldOfAddr(a.Addr) != "linkBufferNode.refer" {
				return false
			}
			k, ok := constInt(a.Args[0])
			return ok && k == 1
		}
		r.mustPass("C02.R5:Refer-counts", "Refer increments the root node's reference count on every path", nodeRefer, nil, []Start{Entry(nodeRefer)}, incs, nil, nil, "AddInt32(&origin.refer, 1) on every path")
		r.mustPass("C02.R5:Refer-links", "Refer links the new node to the root", nodeRefer, nil, []Start{Entry(nodeRefer)}, func(i ssa.Instruction) bool { return isStoreToField(i, "linkBufferNode", "origin") }, nil, nil, "p.origin set on every path")
		// the increment targets p.origin (the root), not the intermediate node
		okRoot := false
		forEachIns(nodeRefer, func(i ssa.Instruction) {
			if a := asAtomic(i); a != nil && a.Op == "Add" {
				if fa, ok := a.Addr.(*ssa.FieldAddr); ok {
					if _, isOrigin := loadOfField(fa.X, "linkBufferNode", "origin"); isOrigin {
						okRoot = true
					}
					// ... or the very value that is linked in as the new node's root ("origin := ...; p.origin = origin;
					// AddInt32(&origin.refer, 1)")
					// (every store of the root must be that value: "p.origin = node" on one branch and a count on node is the bug)
					nSt, nSame := 0, 0
					forEachIns(nodeRefer, func(j ssa.Instruction) {
						if st, ok := j.(*ssa.Store); ok && isStoreToField(j, "linkBufferNode", "origin") {
							nSt++
							if st.Val == fa.X {
								nSame++
							}
						}
					})
					// ... and that value is the node's own root where it has one: a phi with a load of node.origin among its edges
					fromOrigin := false
					if phi, isPhi := fa.X.(*ssa.Phi); isPhi {
						for _, e := range phi.Edges {
							if _, isO := loadOfField(e, "linkBufferNode", "origin"); isO {
								fromOrigin = true
							}
						}
					}
					if nSt > 0 && nSt == nSame && fromOrigin {
						okRoot = true
					}
				}
			}
		})
		r.ob("C02.R5:Refer-counts-root", "the count incremented is the root's (a slice of a slice pins the original block)", nodeRefer, nil, okRoot, "AddInt32(&p.origin.refer, 1)", true)
		isDec := func(v ssa.Value) bool {
			c, ok := v.(*ssa.Call)
			if !ok {
				return false
			}
			a := asAtomic(c)
			if a == nil || a.Op != "Add" || structFieldOfAddr(a.Addr) != "linkBufferNode.refer" {
				return false
			}
			k, okc := constInt(a.Args[0])
			return okc && k == -1
		}
		last := cmpAtom(isDec, isConstEq(0), eqRel)
		for _, site := range findIns(nodeRelease, func(i ssa.Instruction) bool { return isCall(i, freeFn) }) {
			r.guarded("C02.R5:free-when-last", "a node's block goes back to the pool only when the last reference is dropped", nodeRelease, site, last, nil, "guarded by AddInt32(&refer,-1)==0")
		}
		for _, site := range findIns(nodeRelease, func(i ssa.Instruction) bool {
			f := calleeOf(i)
			return f != nil && f.Name() == "Put" && f.Pkg != nil && f.Pkg.Pkg.Path() == "sync"
		}) {
			r.guarded("C02.R5:pool-when-last", "a node struct is recycled only when the last reference is dropped", nodeRelease, site, last, nil, "guarded by AddInt32(&refer,-1)==0")
		}
		// a child releases its root
		r.mustPass("C02.R5:child-releases-root", "releasing a node that refers to a root also drops the root's count", nodeRelease, nil,
			edgesEstablishing(nodeRelease, fieldNonNilFact("linkBufferNode", "origin")), func(i ssa.Instruction) bool { return isCall(i, nodeRelease) }, nil, nil, "origin.Release() on every path from origin != nil")
	}

	// a recycled node struct carries no stale origin/buf (Refer would count a foreign root): C03.R2
	r.borrow([]string{"C03.R2:cleared-before-pooled", "C03.R2:no-reference-kept"}, "C03.R2", "C02.R5", func() { c03(r) })

	// ---- R6 an exposed block is not truncated for re-use before Release -------------------------------
	for _, fn := range w.Funcs {
		for _, ins := range allIns(fn) {
			st, ok := ins.(*ssa.Store)
			if !ok {
				continue
			}
			for _, fld := range []string{"cachePeek"} {
				if !isStoreToField(ins, "UnsafeLinkBuffer", fld) {
					continue
				}
				sl, ok := st.Val.(*ssa.Slice)
				if !ok || sl.High == nil {
					continue
				}
				if k, okc := constInt(sl.High); !okc || k != 0 {
					continue
				}
				if _, same := loadOfField(sl.X, "UnsafeLinkBuffer", fld); !same {
					continue
				}
				inRelease := w.FnName(fn) == "(*UnsafeLinkBuffer).Release"
				r.ob("C02.R6:"+fn.Name()+":"+fld+"-truncated-for-reuse", "a block from which Peek results were handed out is not truncated to length 0 for re-use before Release: the next multi-node Peek would overwrite bytes a caller may still hold", fn, ins, inRelease, fld+" = "+fld+"[:0] in "+w.FnName(fn), false)
			}
		}
	}
	// ... and the Peek cache backs Peek results only: a method that hands Peek's result on as its own (Until/Next rewritten over
	// Peek+Skip) gives the caller bytes that the next multi-node Peek refills before Release
	{
		peek := bufMethod(w, "Peek")
		n := 0
		for _, fn := range w.Funcs {
			if fn == peek || fn.Signature.Recv() == nil || namedTypeName(fn.Signature.Recv().Type()) != "UnsafeLinkBuffer" {
				continue
			}
			for _, ins := range allIns(fn) {
				ret, ok := ins.(*ssa.Return)
				if !ok || len(ret.Results) == 0 {
					continue
				}
				for _, v := range phiLeaves(seeThroughCell(ret.Results[0])) {
					x := v
					if sl, isSl := x.(*ssa.Slice); isSl {
						x = sl.X
					}
					if e, isE := x.(*ssa.Extract); isE {
						x = e.Tuple
					}
					if c, isC := x.(*ssa.Call); isC && c.Call.StaticCallee() == peek {
						n++
						r.ob("C02.R6:peek-result-is-not-handed-on:"+fn.Name(), "no other reader method returns the result of Peek as its own: the Peek cache is refilled by the next multi-node Peek, so bytes that must stay valid until Release (Next, Until, ReadBinary ...) never live there", fn, ins, false, "returns Peek()'s result", true)
					}
				}
			}
		}
		if n == 0 {
			r.ob("C02.R6:peek-result-is-not-handed-on", "no other reader method returns the result of Peek as its own", peek, nil, true, "no method returns Peek()'s result", false)
		}
	}
	// Append (WriteBuffer) closes the donor from its head up to its read cursor: the donor's read cursor is not advanced there
	// (a node a zero-copy Next has just consumed exactly is still the read node; moved past, Append would free it under the caller)
	{
		wb := bufMethod(w, "WriteBuffer")
		var bad ssa.Instruction
		forEachIns(wb, func(i ssa.Instruction) {
			st, ok := i.(*ssa.Store)
			if !ok || !isStoreToField(i, "UnsafeLinkBuffer", "read") {
				return
			}
			if !isNilConst(st.Val) {
				bad = i
			}
		})
		r.ob("C02.R2:append-keeps-the-donors-read-cursor", "Append never advances a read cursor (it only clears the donor's when it closes it): the nodes it releases are exactly the ones the donor had already left behind", wb, bad, bad == nil, "only read = nil in WriteBuffer", true)
	}
}

func fieldTail(path string) string {
	if i := strings.LastIndex(path, "."); i >= 0 {
		return path[i+1:]
	}
	return path
}

// flowsToField: in fn, value v (a []byte) is stored into / appended to / loaded from field fld of the buffer.
func flowsToField(fn *ssa.Function, v ssa.Value, fld string) bool {
	seen := map[ssa.Value]bool{}
	var origin func(x ssa.Value, d int) bool
	origin = func(x ssa.Value, d int) bool {
		if x == nil || seen[x] || d > 6 {
			return false
		}
		seen[x] = true
		if _, ok := loadOfField(x, "UnsafeLinkBuffer", fld); ok {
			return true
		}
		// stored into the field, or appended to it
		if refs := x.Referrers(); refs != nil {
			for _, ref := range *refs {
				if st, ok := ref.(*ssa.Store); ok && st.Val == x && isStoreToField(st, "UnsafeLinkBuffer", fld) {
					return true
				}
				if c, ok := ref.(*ssa.Call); ok {
					if bi, isB := c.Call.Value.(*ssa.Builtin); isB && bi.Name() == "append" {
						if _, isFld := loadOfField(c.Call.Args[0], "UnsafeLinkBuffer", fld); isFld {
							return true
						}
					}
				}
				// varargs slice for append(caches, p)
				if st, ok := ref.(*ssa.Store); ok && st.Val == x {
					if ia, ok := st.Addr.(*ssa.IndexAddr); ok {
						if al, ok := ia.X.(*ssa.Alloc); ok {
							for _, r2 := range *al.Referrers() {
								if sl, ok := r2.(*ssa.Slice); ok {
									for _, r3 := range *sl.Referrers() {
										if c, ok := r3.(*ssa.Call); ok {
											if bi, isB := c.Call.Value.(*ssa.Builtin); isB && bi.Name() == "append" {
												if _, isFld := loadOfField(c.Call.Args[0], "UnsafeLinkBuffer", fld); isFld {
													return true
												}
											}
										}
									}
								}
							}
						}
					}
				}
			}
		}
		switch y := x.(type) {
		case *ssa.Phi:
			for _, e := range y.Edges {
				if origin(e, d+1) {
					return true
				}
			}
		case *ssa.Slice:
			return origin(y.X, d+1)
		case *ssa.Call:
			if bi, isB := y.Call.Value.(*ssa.Builtin); isB && bi.Name() == "append" {
				return origin(y.Call.Args[0], d+1)
			}
		}
		return false
	}
	_ = types.Typ
	return origin(v, 0)
}
