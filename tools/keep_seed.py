#!/usr/bin/env python3
"""keep_seed.py ID mN "what it breaks" "what it needs to manifest"
Requires a verification line for (ID,mN) in /tmp/vseed_*.log that shows: demo passes on the unchanged tree,
suite passes with the mutant, demo fails with the mutant. Copies patch + demo (+window) to /verif/seeded/ID-mN/,
runs the property's check (and related ones) against the mutant applied to /repo and records what caught it."""
import sys, os, re, glob, json, shutil, subprocess
id_, m, breaks, needs = sys.argv[1:5]
extra_props = sys.argv[5:] 
src = f'/tmp/mut/{id_}/out'
prop = id_[:3]
seedname = f'{prop}-{m}' if id_ == prop else f'{prop}-{id_[3:]}{m}'
line = None
for f in sorted(glob.glob('/tmp/vseed_*.log')):
    for l in open(f):
        if l.startswith(f'id={id_} m={m} '):
            line = l.strip()
if not line:
    sys.exit(f'no verification line for {id_} {m}')
ok = 'demo_on_base=pass' in line and ('suite=pass' in line) and 'demo_on_mutant=fail(good)' in line and 'build=ok' in line
if not ok:
    sys.exit(f'NOT CONFIRMED: {line}')
dst = f'/verif/seeded/{seedname}'
os.makedirs(dst, exist_ok=True)
shutil.copy(f'{src}/{m}.diff', f'{dst}/patch.diff')
shutil.copy(f'{src}/{m}_demo_test.go', f'{dst}/demo_test.go.txt')
win = os.path.exists(f'{src}/{m}_window.diff')
if win:
    shutil.copy(f'{src}/{m}_window.diff', f'{dst}/window.diff')
# run checks
props = [prop] + extra_props
out = subprocess.run(['/verif/tools/trymut.sh', f'{dst}/patch.diff'] + props, capture_output=True, text=True).stdout
caught = {}
cur = None
for l in out.splitlines():
    mm = re.match(r'== (C\d+) exit=(\d+)', l)
    if mm:
        cur = mm.group(1); caught[cur] = {'exit': int(mm.group(2)), 'obligations': []}
    elif l.startswith('VIOLATED ') and cur and not l.startswith('VIOLATED C'):
        caught[cur]['obligations'].append(l.split()[1])
    elif l.startswith('VIOLATED ') and cur:
        pass
meta = {
    'id': seedname, 'property': prop, 'source': 'independent sub-agent given only the property text and a scratch worktree',
    'breaks': breaks, 'needs_to_manifest': needs,
    'window_patch_needed_for_demo': win,
    'confirmed_by_me': {'command': f'tools/verify_seed.sh {id_} {m} /tmp/mut/{id_}/out', 'result': line,
                        'meaning': 'scratch worktree of /repo HEAD: demo passes on the unchanged tree (with the window patch if any); with the patch applied go build+vet pass, the full suite passes, and the demo fails'},
    'checks_run': {p: ('VIOLATION' if v['exit'] == 1 else ('clean' if v['exit'] == 0 else 'BROKEN')) for p, v in caught.items()},
    'caught_by': {p: v['obligations'] for p, v in caught.items() if v['exit'] == 1},
    'files': {'patch.diff': 'git apply -able change to /repo', 'demo_test.go.txt': 'demonstration test (copy to the package directory as *_test.go to run)'},
}
ft = f'/tmp/mut/{id_}/first_try_{m}.txt'
if os.path.exists(ft):
    meta['first_try'] = open(ft).read().strip()
json.dump(meta, open(f'{dst}/meta.json', 'w'), indent=1)
print(seedname, meta['checks_run'], {p: v[:2] for p, v in meta['caught_by'].items()})
