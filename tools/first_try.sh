#!/bin/bash
# usage: first_try.sh <WID> [nplint]   - runs every check (committed binary) on each /tmp/mut/<WID>/out/mN.diff in a scratch
# worktree and records /tmp/mut/<WID>/first_try_mN.txt (caught / missed / missed-by-own-caught-by-...)
export GOFLAGS=-mod=mod GOPROXY=off GOSUMDB=off GOTOOLCHAIN=local
wid=$1; prop=${wid:0:3}; NPLINT=${2:-/verif/bin/nplint}
wt=$(mktemp -d /tmp/ft.XXXX); rmdir $wt
git -C /repo worktree add --detach $wt HEAD >/dev/null 2>&1 || exit 9
mkdir -p $wt/.verif && cp /verif/known_findings.json $wt/.verif/
for d in /tmp/mut/$wid/out/m?.diff; do
  m=$(basename $d .diff)
  ( cd $wt && git checkout -q -- . && git clean -fdq -e .verif && git apply $d ) || { echo "$wid $m NOAPPLY"; continue; }
  out=$($NPLINT -prop all -tier quick -repo $wt -verif $wt/.verif 2>&1)
  props=$(echo "$out" | grep -o '^VIOLATION property=C[0-9]*' | sed 's/.*=//' | sort -u | tr '\n' ' ')
  keys=$(echo "$out" | grep '^VIOLATED ' | awk '{print $2}' | sort -u | head -6 | tr '\n' ' ')
  if echo " $props" | grep -q " $prop "; then v="caught (before any rule was added for this mutant)";
  elif [ -n "$props" ]; then v="missed-by-$prop-caught-by-$(echo $props | tr ' ' '+') (before any rule was added for this mutant)";
  else v="missed (before any rule was added for this mutant)"; fi
  echo "$v" > /tmp/mut/$wid/first_try_$m.txt
  echo "$wid $m: $v  [$props] $keys"
  echo "$out" | grep -E '^BROKEN' | head -2
done
git -C /repo worktree remove --force $wt >/dev/null 2>&1
