#!/bin/bash
# usage: verify_seed.sh <ID> <mN> <srcdir>   (srcdir has mN.diff, mN_demo_test.go, optional mN_window.diff)
# Confirms in a scratch worktree: suite passes with mutant; demo fails with mutant; demo passes without.
set -u
id=$1; m=$2; src=$3
RACEFLAG=""; [ "${RACE:-0}" = "1" ] && RACEFLAG="-race"
export GOFLAGS=-mod=mod GOPROXY=off GOSUMDB=off GOTOOLCHAIN=local
wt=/tmp/vseed_${id}_${m}
git -C /repo worktree remove --force $wt >/dev/null 2>&1
git -C /repo worktree add --detach $wt HEAD >/dev/null 2>&1 || { echo "worktree failed"; exit 9; }
cd $wt
res="id=$id m=$m"
demo=$src/${m}_demo_test.go
pkgdir=.
grep -q '^package mux' $demo 2>/dev/null && pkgdir=mux
tname=$(grep -o 'func TestMutantDemo[0-9A-Za-z_]*' $demo | head -1 | sed 's/func //')
[ -z "$tname" ] && tname=$(grep -o 'func Test[0-9A-Za-z_]*' $demo | head -1 | sed 's/func //')
win=$src/${m}_window.diff
# 1. demo on unchanged (+window)
[ -f $win ] && git apply $win
cp $demo $pkgdir/zz_demo_test.go
if unshare -n bash -c "ip link set lo up; go test $RACEFLAG -vet=off -count=1 -run '^${tname}\$' ./$pkgdir" > /tmp/vseed_${id}_${m}.base.log 2>&1; then res="$res demo_on_base=pass"; else res="$res demo_on_base=FAIL"; fi
rm -f $pkgdir/zz_demo_test.go; git checkout -q -- .
# 2. mutant: build, suite, demo
if ! git apply $src/$m.diff; then echo "$res patch=NOAPPLY"; cd /; git -C /repo worktree remove --force $wt; exit 1; fi
if go build ./... >/dev/null 2>&1 && go vet ./... >/dev/null 2>&1; then res="$res build=ok"; else res="$res build=FAIL"; fi
if unshare -n bash -c "ip link set lo up; go test -vet=off -count=1 -timeout 6m ./..." > /tmp/vseed_${id}_${m}.suite.log 2>&1; then res="$res suite=pass"; else
  # one retry (machine may be loaded)
  if unshare -n bash -c "ip link set lo up; go test -vet=off -count=1 -timeout 6m ./..." > /tmp/vseed_${id}_${m}.suite.log 2>&1; then res="$res suite=pass(retry)"; else res="$res suite=FAIL"; fi
fi
[ -f $win ] && git apply $win
cp $demo $pkgdir/zz_demo_test.go
if unshare -n bash -c "ip link set lo up; go test $RACEFLAG -vet=off -count=1 -run '^${tname}\$' ./$pkgdir" > /tmp/vseed_${id}_${m}.mut.log 2>&1; then res="$res demo_on_mutant=PASS(bad)"; else res="$res demo_on_mutant=fail(good)"; fi
cd /; git -C /repo worktree remove --force $wt >/dev/null 2>&1
echo "$res"
