#!/usr/bin/env python3
"""sweep_try.py <mutant-id> [props...]: apply one sweep mutant to the scratch worktree /tmp/scratch and run checks there."""
import json, subprocess, sys, os
mid=int(sys.argv[1]); props=sys.argv[2:] or ['all']
m=[json.loads(l) for l in open('/tmp/msw/muts.jsonl')][mid]
wt='/tmp/scratch'
subprocess.run(['git','-C',wt,'checkout','-q','--','.'])
src=open(f"/repo/{m['file']}",'rb').read()
open(f"{wt}/{m['file']}",'wb').write(src[:m['start']]+m['repl'].encode()+src[m['end']:])
os.makedirs(wt+'/.verif',exist_ok=True); subprocess.run(['cp','/verif/known_findings.json',wt+'/.verif/'])
print(m['file'],m['line'],m['op'],repr(src[m['start']:m['end']].decode()[:60]),'->',repr(m['repl'][:60]))
for p in props:
    out=subprocess.run(['/verif/bin/nplint','-prop',p,'-tier','quick','-repo',wt,'-verif',wt+'/.verif'],capture_output=True,text=True)
    v=[l.split()[1] for l in out.stdout.splitlines() if l.startswith('VIOLATED ') and not l.startswith('VIOLATED C')]
    print(' ',p,'exit',out.returncode,v[:4])
subprocess.run(['git','-C',wt,'checkout','-q','--','.'])
