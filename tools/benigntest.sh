#!/bin/bash
# Applies every behaviour-preserving variant in /verif/benign to a scratch copy of /repo's HEAD and runs ALL checks:
# none may raise a VIOLATION (exit 1) or break (exit 2). Information only.
export GOFLAGS=-mod=mod GOPROXY=off GOSUMDB=off GOTOOLCHAIN=local
wt=$(mktemp -d /tmp/benign.XXXX); rmdir $wt
git -C /repo worktree add --detach $wt HEAD >/dev/null 2>&1 || exit 9
mkdir -p $wt/.verif && cp /verif/known_findings.json $wt/.verif/
bad=0
for p in ${@:-/verif/benign/*.patch}; do
  ( cd $wt && git checkout -q -- . && git apply $p ) || { echo "NOAPPLY $p"; bad=$((bad+1)); continue; }
  if ! (cd $wt && go build ./... >/dev/null 2>&1 && GOOS=darwin go build ./... >/dev/null 2>&1 && go vet -tags race . >/dev/null 2>&1); then echo "NOBUILD $p"; bad=$((bad+1)); continue; fi
  res=""
  for prop in C01 C02 C03 C04 C05 C06 C07 C08 C09 C10 C11 C12 C13 C14 C15 C16 C17 C18 C19; do
    out=$(/verif/bin/nplint -prop $prop -tier quick -repo $wt -verif $wt/.verif 2>&1); code=$?
    if [ $code -ne 0 ]; then res="$res $prop(exit$code:$(echo "$out" | grep -E '^(VIOLATED |BROKEN)' | head -1 | awk '{print $2}'))"; fi
  done
  if [ -z "$res" ]; then echo "QUIET   $(basename $p)"; else echo "ALARM   $(basename $p):$res"; bad=$((bad+1)); fi
done
git -C /repo worktree remove --force $wt >/dev/null 2>&1
echo "benigntest: false alarms=$bad"
