#!/bin/bash
# Runs every patch in /verif/mutants against a scratch copy of /repo's HEAD and reports whether the
# property named by the file prefix raises a VIOLATION. Information only (never part of a check's exit code).
export GOFLAGS=-mod=mod GOPROXY=off GOSUMDB=off GOTOOLCHAIN=local
wt=$(mktemp -d /tmp/selftest.XXXX); rmdir $wt
git -C /repo worktree add --detach $wt HEAD >/dev/null 2>&1 || exit 9
mkdir -p $wt/.verif && cp /verif/known_findings.json $wt/.verif/
pass=0; fail=0
for p in ${@:-/verif/mutants/*.patch}; do
  prop=$(basename $p | cut -d_ -f1)
  ( cd $wt && git checkout -q -- . && git apply --exclude='.verif/*' $p ) || { echo "NOAPPLY $p"; fail=$((fail+1)); continue; }
  if ! (cd $wt && go build ./... >/dev/null 2>&1); then echo "NOBUILD $p"; fail=$((fail+1)); continue; fi
  out=$(/verif/bin/nplint -prop $prop -tier quick -repo $wt -verif $wt/.verif 2>&1); code=$?
  if [ $code -eq 1 ]; then pass=$((pass+1)); echo "KILLED  $(basename $p): $(echo "$out" | grep '^VIOLATED ' | head -1 | awk '{print $2}')"; else fail=$((fail+1)); echo "MISSED  $(basename $p) (exit $code) $(echo "$out" | grep BROKEN | head -1)"; fi
done
git -C /repo worktree remove --force $wt >/dev/null 2>&1
echo "selftest: killed=$pass missed=$fail"
