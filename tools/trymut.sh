#!/bin/bash
# usage: trymut.sh <patch.diff> <prop> [<prop>...]   - applies the patch to /repo, runs the checks, restores /repo
set -u
patch="$1"; shift
cd /repo || exit 9
if ! git diff --quiet; then echo "REPO DIRTY"; exit 9; fi
if ! git apply "$patch"; then echo "PATCH DOES NOT APPLY"; exit 9; fi
export GOFLAGS=-mod=mod GOPROXY=off GOSUMDB=off GOTOOLCHAIN=local
( go build ./... ) || echo "MUTANT DOES NOT BUILD"
mkdir -p /tmp/trymut_verif && cp /verif/known_findings.json /tmp/trymut_verif/
for p in "$@"; do
  out=$(cd /verif && bin/nplint -prop "$p" -tier quick -verif /tmp/trymut_verif 2>&1); code=$?
  echo "== $p exit=$code"
  echo "$out" | grep -E "^(VIOLATED|BROKEN|KNOWN)" | head -8
done
git -C /repo checkout -- . 
rm -rf /tmp/trymut_verif
