#!/bin/bash
# Like benigntest.sh but runs the 19 checks in one process per patch (-prop all); prints the violated keys on an alarm.
export GOFLAGS=-mod=mod GOPROXY=off GOSUMDB=off GOTOOLCHAIN=local
NPLINT=${NPLINT:-/verif/bin/nplint}
wt=$(mktemp -d /tmp/benign.XXXX); rmdir $wt
git -C /repo worktree add --detach $wt HEAD >/dev/null 2>&1 || exit 9
mkdir -p $wt/.verif && cp /verif/known_findings.json $wt/.verif/
bad=0
for p in ${@:-/verif/benign/*.patch}; do
  ( cd $wt && git checkout -q -- . && git clean -fdq -e .verif && git apply $p ) || { echo "NOAPPLY $p"; bad=$((bad+1)); continue; }
  if ! (cd $wt && go build ./... >/dev/null 2>&1 && GOOS=darwin go build ./... >/dev/null 2>&1 && go vet -tags race . >/dev/null 2>&1); then echo "NOBUILD $p"; bad=$((bad+1)); continue; fi
  out=$($NPLINT -prop all -tier quick -repo $wt -verif $wt/.verif 2>&1); code=$?
  if [ $code -eq 0 ]; then echo "QUIET   $(basename $p)"; else echo "ALARM   $(basename $p) (exit $code)"; echo "$out" | grep -E '^(VIOLATED |BROKEN|ANCHOR)' | cut -c1-400 | sed 's/^/        /'; bad=$((bad+1)); fi
done
git -C /repo worktree remove --force $wt >/dev/null 2>&1
echo "benignall: false alarms=$bad"
