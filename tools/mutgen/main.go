// mutgen enumerates syntactic mutants of the repository's non-test Go files (linux build) as JSON lines:
// {"id":..,"file":..,"start":..,"end":..,"repl":..,"op":..,"func":..,"line":..}
// Used by tools/mutsweep.py to mutation-test the static checks (information only).
package main

import (
	"encoding/json"
	"fmt"
	"go/ast"
	"go/build"
	"go/parser"
	"go/token"
	"os"
	"path/filepath"
	"sort"
	"strings"
)

type Mut struct {
	ID    int    `json:"id"`
	File  string `json:"file"`
	Start int    `json:"start"`
	End   int    `json:"end"`
	Repl  string `json:"repl"`
	Op    string `json:"op"`
	Func  string `json:"func"`
	Line  int    `json:"line"`
}

var constSets = [][]string{
	{"none", "user", "poller"},
	{"closing", "connecting", "processing", "flushing"},
	{"PollReadable", "PollWritable", "PollDetach", "PollR2RW", "PollRW2R"},
	{"connStateNone", "connStateConnected", "connStateDisconnected"},
	{"ErrEOF", "ErrConnClosed", "ErrReadTimeout", "ErrWriteTimeout", "ErrConcurrentAccess"},
	{"flagUnmanaged", "flagReadExposed"},
	{"managerUninitialized", "managerInitializing", "managerInitialized"},
	{"active", "closed"},
}

func main() {
	root := os.Args[1]
	var muts []Mut
	fset := token.NewFileSet()
	ctx := build.Default
	ctx.GOOS, ctx.GOARCH = "linux", "amd64"
	for _, dir := range []string{root, filepath.Join(root, "mux")} {
		ents, _ := os.ReadDir(dir)
		for _, e := range ents {
			name := e.Name()
			if !strings.HasSuffix(name, ".go") || strings.HasSuffix(name, "_test.go") {
				continue
			}
			if ok, _ := ctx.MatchFile(dir, name); !ok {
				continue
			}
			path := filepath.Join(dir, name)
			src, err := os.ReadFile(path)
			if err != nil {
				panic(err)
			}
			f, err := parser.ParseFile(fset, path, src, parser.ParseComments)
			if err != nil {
				panic(err)
			}
			rel, _ := filepath.Rel(root, path)
			off := func(p token.Pos) int { return fset.Position(p).Offset }
			text := func(n ast.Node) string { return string(src[off(n.Pos()):off(n.End())]) }
			for _, d := range f.Decls {
				fd, ok := d.(*ast.FuncDecl)
				if !ok || fd.Body == nil {
					continue
				}
				fname := fd.Name.Name
				if fd.Recv != nil && len(fd.Recv.List) > 0 {
					fname = strings.TrimPrefix(text(fd.Recv.List[0].Type), "*") + "." + fname
				}
				add := func(n ast.Node, end ast.Node, repl, op string) {
					muts = append(muts, Mut{File: rel, Start: off(n.Pos()), End: off(end.End()), Repl: repl, Op: op, Func: fname, Line: fset.Position(n.Pos()).Line})
				}
				simple := func(s ast.Stmt) bool {
					switch x := s.(type) {
					case *ast.ExprStmt, *ast.IncDecStmt, *ast.DeferStmt, *ast.GoStmt, *ast.SendStmt:
						return true
					case *ast.AssignStmt:
						return x.Tok != token.DEFINE
					}
					return false
				}
				ast.Inspect(fd.Body, func(n ast.Node) bool {
					switch x := n.(type) {
					case *ast.BlockStmt:
						for i, s := range x.List {
							if simple(s) {
								add(s, s, "", "DEL")
							}
							if i+1 < len(x.List) && simple(s) && simple(x.List[i+1]) {
								add(s, x.List[i+1], text(x.List[i+1])+"\n"+text(s), "SWAP")
							}
						}
					case *ast.CaseClause:
						for i, s := range x.Body {
							if simple(s) {
								add(s, s, "", "DEL")
							}
							if i+1 < len(x.Body) && simple(s) && simple(x.Body[i+1]) {
								add(s, x.Body[i+1], text(x.Body[i+1])+"\n"+text(s), "SWAP")
							}
						}
					case *ast.IfStmt:
						add(x.Cond, x.Cond, "!("+text(x.Cond)+")", "NEG")
					case *ast.ForStmt:
						if x.Cond != nil {
							add(x.Cond, x.Cond, "!("+text(x.Cond)+")", "NEG")
						}
					case *ast.BinaryExpr:
						switch x.Op {
						case token.LAND, token.LOR:
							add(x, x, text(x.X), "DROPR")
							add(x, x, text(x.Y), "DROPL")
						case token.LSS:
							add(x, x, text(x.X)+" <= "+text(x.Y), "ROR")
						case token.LEQ:
							add(x, x, text(x.X)+" < "+text(x.Y), "ROR")
						case token.GTR:
							add(x, x, text(x.X)+" >= "+text(x.Y), "ROR")
						case token.GEQ:
							add(x, x, text(x.X)+" > "+text(x.Y), "ROR")
						case token.EQL:
							add(x, x, text(x.X)+" != "+text(x.Y), "ROR")
						case token.NEQ:
							add(x, x, text(x.X)+" == "+text(x.Y), "ROR")
						}
					case *ast.Ident:
						if x.Name == "true" {
							add(x, x, "false", "CONST")
						} else if x.Name == "false" {
							add(x, x, "true", "CONST")
						}
						for _, set := range constSets {
							for _, m := range set {
								if m == x.Name {
									for _, o := range set {
										if o != m {
											add(x, x, o, "CONST")
										}
									}
								}
							}
						}
					case *ast.BasicLit:
						if x.Kind == token.INT && (x.Value == "0" || x.Value == "1") {
							if x.Value == "0" {
								add(x, x, "1", "CONST")
							} else {
								add(x, x, "0", "CONST")
							}
						}
					case *ast.ReturnStmt:
						// nothing
					}
					return true
				})
			}
		}
	}
	sort.SliceStable(muts, func(i, j int) bool {
		if muts[i].File != muts[j].File {
			return muts[i].File < muts[j].File
		}
		return muts[i].Start < muts[j].Start
	})
	enc := json.NewEncoder(os.Stdout)
	for i := range muts {
		muts[i].ID = i
		enc.Encode(muts[i])
	}
	fmt.Fprintln(os.Stderr, "mutants:", len(muts))
}
