#!/bin/bash
# Seed regression only: every seeded mutant that its own property's check caught (per meta.json) must still be caught.
cd /verif
export GOFLAGS=-mod=mod GOPROXY=off GOSUMDB=off GOTOOLCHAIN=local
wt=$(mktemp -d /tmp/seedreg.XXXX); rmdir $wt; git -C /repo worktree add --detach $wt HEAD >/dev/null 2>&1
mkdir -p $wt/.verif && cp known_findings.json $wt/.verif/
fail=0
for d in seeded/*/; do
  id=$(basename $d); prop=${id%%-*}
  expect=$(python3 -c "import json;print('1' if json.load(open('$d/meta.json'))['checks_run'].get('$prop')=='VIOLATION' else '0')")
  ( cd $wt && git checkout -q -- . && git clean -fdq -e .verif && git apply /verif/$d/patch.diff ) || { echo "SEED NOAPPLY $id"; continue; }
  bin/nplint -prop $prop -tier quick -repo $wt -verif $wt/.verif >/dev/null 2>&1; code=$?
  if [ "$expect" = "1" ] && [ $code -ne 1 ]; then echo "SEED REGRESSION: $id was caught before, now exit=$code"; fail=1; fi
  if [ "$expect" = "0" ] && [ $code -eq 1 ]; then echo "SEED NOW CAUGHT: $id (update meta)"; fi
done
git -C /repo worktree remove --force $wt >/dev/null 2>&1
echo "seedreg: fail=$fail"
