#!/usr/bin/env python3
"""mk_round.py SUFFIX Cxx [Cyy ...]: prepare a fresh sub-agent workspace /tmp/mut/<Cxx><SUFFIX> (worktree of /repo HEAD)
and its prompt /tmp/mut/<Cxx><SUFFIX>.prompt.txt. The prompt contains only the property text, workspace rules and the list
of mechanisms already explored by earlier rounds (from seeded/*/meta.json 'breaks') - nothing else from /verif."""
import sys, json, glob, os, subprocess
suffix = sys.argv[1]
props = {json.loads(l)['id']: json.loads(l) for l in open('/verif/properties.jsonl')}

HEAD = """You are helping to evaluate verification machinery for the Go library cloudwego/netpoll (an epoll/kqueue reactor networking
library: pollers, a connection life-cycle state machine, a zero-copy reference-counted LinkBuffer). You play the part of a
developer who makes a realistic but WRONG change to the library.

WORKSPACE RULES
- Your workspace is the git worktree /tmp/mut/WID (a checkout of the library). Work ONLY there. Never touch /repo or /verif,
  never read anything under /verif, never commit anything, never create other worktrees.
- Every shell call needs: export GOFLAGS=-mod=mod GOPROXY=off GOSUMDB=off GOTOOLCHAIN=local   (the sandbox has no network).
- The existing test suite: `go test -vet=off -count=1 -timeout 6m ./...` in the workspace (about 1-2 minutes). Some tests are
  load-sensitive (TestGracefulExit, TestReadDeadline/TestWriteDeadline, TestLargeBufferWrite, TestParallelShortConnection,
  TestShardQueue fail now and then on the UNCHANGED tree when the machine is busy - other agents are running suites at the
  same time). If a test fails, re-run it alone (`go test -vet=off -count=3 -run '^TestName$' .`) with and without your change
  before you conclude anything.
- Other agents work in sibling directories at the same time: never use pkill/killall by name, and never use `git stash` (the
  stash is shared between all worktrees of the repository; use `git diff > file` / `git apply -R` instead).
- Put your results in /tmp/mut/WID/out/ (exists). Keep the workspace's tracked files UNCHANGED at the end (`git checkout -- .`);
  your changes live only as diff files in out/.

"""

TASK = """TASK
Produce THREE different changes ("mutants") m1, m2, m3 to the library's non-test source, each of which
 (a) compiles (`go build ./... && go vet ./...`),
 (b) passes the existing test suite, unedited (allowing for the load-sensitive tests named above),
 (c) BREAKS the property above - for some input, schedule, fault point or history the behaviour the property promises is lost,
 (d) looks like something a developer could plausibly write: an optimisation, a refactoring, a simplification, a "fix" of
     something else, a reordering - not sabotage, and small (a few lines, at most ~30),
 (e) needs something SPECIFIC to manifest: a particular interleaving, a fault at a particular point, a multi-step sequence of
     operations, an unusual input, or two cooperating sites that each look fine alone. Not something ordinary use exposes at once.
The three should attack DIFFERENT clauses / mechanisms / functions of the property, and differ from the "already explored" list.

For each mutant write in /tmp/mut/WID/out/:
 - mN.diff            `git diff` of the change against the workspace HEAD (must apply with `git apply` on a clean checkout)
 - mN_demo_test.go    a Go test in the package of the code (package netpoll, or package mux for mux/), with ONE test function
                      named TestMutantDemo<Something>, that PASSES on the unchanged library and FAILS (or panics / deadlocks into
                      its own timeout of a few seconds) with the mutant applied. It must be deterministic enough to fail at least
                      9 times out of 10 with the mutant and pass every time without it. Use loopback sockets / socketpairs /
                      in-package access to unexported identifiers freely. The test file is copied next to the library's own test
                      files, so it may use their helpers, but must not redefine names they define.
 - mN_window.diff     OPTIONAL: if the failing schedule cannot be forced from a test, a tiny behaviour-preserving hook (a
                      package-level `var hookX func()` that is nil by default and called as `if hookX != nil { hookX() }` at
                      the window) as a diff that applies both to the unchanged tree and on top of mN.diff. The demo may set it.
 - mN.txt             3-10 lines: what the change is, which clause of the property it breaks, what is needed for it to
                      manifest, and how you confirmed (a)-(c) (commands and outcomes).
Confirm everything yourself before writing it down: demo passes without the change (run it 3 times), suite passes with the
change, demo fails with the change (run it 3 times). Undo a change with `git checkout -- .` before starting the next one.

ALSO: while reading the code, if you notice that the UNCHANGED library itself already violates the property for some specific
input/schedule/history (a genuine defect), describe it in /tmp/mut/WID/out/observations.txt with the exact sequence, and if
you can, a test that fails on the unchanged tree (out/obs_N_test.go). This is optional and secondary to the three mutants.

Finish with a short summary listing, per mutant, the files written and the confirmation outcomes. If you could produce fewer
than three that satisfy (a)-(e), say so honestly rather than padding with one that the suite catches.
"""

for pid in sys.argv[2:]:
    p = props[pid]
    wid = pid + suffix
    wt = f'/tmp/mut/{wid}'
    os.makedirs('/tmp/mut', exist_ok=True)
    if not os.path.isdir(wt):
        subprocess.run(['git', '-C', '/repo', 'worktree', 'add', '--detach', wt, 'HEAD'], check=True, stdout=subprocess.DEVNULL, stderr=subprocess.DEVNULL)
        os.makedirs(f'{wt}/out', exist_ok=True)
        open(f'{wt}/out/go.mod', 'w').write('module out\n')
    a = p.get('anchors', {})
    lines = [f"Property {pid}: {p['title']}", '', 'Statement: ' + p['statement'], '',
             f"Quantifier ({', '.join(p['quantifier']['over'])}): {p['quantifier']['text']}", '',
             'Why the existing tests cannot settle it: ' + p['why_tests_cant'], '', 'Anchors (where in the code the property lives):',
             ' files: ' + ', '.join(a.get('files', []))]
    for m in a.get('mechanism', []):
        lines.append(f" mechanism: {m['name']} @ {m.get('where','')}")
    for s in a.get('state', []):
        lines.append(f" state: {s['name']} - {s.get('meaning','')} @ {s.get('where','')}")
    for o in a.get('observe_at', []):
        lines.append(' observable at: ' + o)
    explored = []
    for mf in sorted(glob.glob(f'/verif/seeded/{pid}-*/meta.json')):
        explored.append(' - ' + json.load(open(mf))['breaks'])
    body = HEAD.replace('WID', wid) + 'THE PROPERTY (it holds for the library as checked out; `git log` shows a few recent "fix:" commits - do NOT simply revert those, find other ways to break the property):\n\n' + '\n'.join(lines) + '\n\n\nALREADY EXPLORED - do NOT reuse these mechanisms (they are known; find genuinely different ways, in other functions or other clauses of the property where possible):\n' + '\n'.join(explored) + '\n\n' + TASK.replace('WID', wid)
    open(f'/tmp/mut/{wid}.prompt.txt', 'w').write(body)
    print(wid, len(explored), 'explored')
