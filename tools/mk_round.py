#!/usr/bin/env python3
"""mk_round.py SUFFIX Cxx [Cyy ...]: prepare a fresh sub-agent workspace /tmp/mut/<Cxx><SUFFIX> (worktree of /repo HEAD)
and its prompt /tmp/mut/<Cxx><SUFFIX>.prompt.txt. The prompt contains only the property text, workspace rules and the list
of mechanisms already explored by earlier rounds (from seeded/*/meta.json 'breaks') - nothing else from /verif."""
import sys, json, glob, os, subprocess
suffix = sys.argv[1]
props = {json.loads(l)['id']: json.loads(l) for l in open('/verif/properties.jsonl')}
tmpl = open('/tmp/mut/C03b.prompt.txt').read() if os.path.exists('/tmp/mut/C03b.prompt.txt') else None
head, rest = tmpl.split('THE PROPERTY', 1)
head = head.replace('never use pkill/killall by name.', 'never use pkill/killall by name, and never use `git stash` (the stash is shared between all worktrees of the repository; use `git diff > file` / `git apply -R` instead).')
task = 'TASK' + rest.split('\nTASK', 1)[1]
for pid in sys.argv[2:]:
    p = props[pid]
    wid = pid + suffix
    wt = f'/tmp/mut/{wid}'
    if not os.path.isdir(wt):
        subprocess.run(['git', '-C', '/repo', 'worktree', 'add', '--detach', wt, 'HEAD'], check=True, stdout=subprocess.DEVNULL, stderr=subprocess.DEVNULL)
        os.makedirs(f'{wt}/out', exist_ok=True)
        open(f'{wt}/out/go.mod', 'w').write('module out\n')
    a = p.get('anchors', {})
    lines = [f"Property {pid}: {p['title']}", '', 'Statement: ' + p['statement'], '',
             f"Quantifier ({', '.join(p['quantifier']['over'])}): {p['quantifier']['text']}", '',
             'Why the existing tests cannot settle it: ' + p['why_tests_cant'], '', 'Anchors (where in the code the property lives):',
             ' files: ' + ', '.join(a.get('files', []))]
    for m in a.get('mechanism', []):
        lines.append(f" mechanism: {m['name']} @ {m.get('where','')}")
    for s in a.get('state', []):
        lines.append(f" state: {s['name']} - {s.get('meaning','')} @ {s.get('where','')}")
    for o in a.get('observe_at', []):
        lines.append(' observable at: ' + o)
    explored = []
    for mf in sorted(glob.glob(f'/verif/seeded/{pid}-*/meta.json')):
        explored.append(' - ' + json.load(open(mf))['breaks'])
    body = head.replace('C03b', wid) + 'THE PROPERTY (it holds for the library as checked out; `git log` shows a few recent "fix:" commits - do NOT simply revert those, find other ways to break the property):\n\n' + '\n'.join(lines) + '\n\n\nALREADY EXPLORED - do NOT reuse these mechanisms (they are known; find genuinely different ways, in other functions or other clauses of the property where possible):\n' + '\n'.join(explored) + '\n\n' + task.replace('C03b', wid)
    open(f'/tmp/mut/{wid}.prompt.txt', 'w').write(body)
    print(wid, len(explored), 'explored')
