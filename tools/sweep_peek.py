#!/usr/bin/env python3
import json, sys
ms={}
for l in open('/tmp/msw/muts.jsonl'):
    m=json.loads(l); ms[m['id']]=m
want=sys.argv[1] if len(sys.argv)>1 else ''
status=sys.argv[2] if len(sys.argv)>2 else 'survived'
su={}
try:
    for l in open('/tmp/msw/suite.jsonl'):
        r=json.loads(l); su[r['id']]=r['suite']
except FileNotFoundError: pass
src={}
seen=set()
for l in open('/tmp/msw/check.jsonl'):
    r=json.loads(l)
    if r['id'] in seen: continue
    seen.add(r['id'])
    m=ms[r['id']]
    if want and want not in m['file']+':'+m['func']: continue
    if r['status']!=status: continue
    if m['file'] not in src: src[m['file']]=open('/repo/'+m['file'],'rb').read()
    old=src[m['file']][m['start']:m['end']].decode().replace('\n',' / ')
    print(r['id'], su.get(r['id'],'-'), m['file'].split('/')[-1], m['line'], m['func'], m['op'], '`'+old[:70]+'` -> `'+m['repl'].replace('\n',' / ')[:60]+'`', ','.join(r.get('props',[])))
