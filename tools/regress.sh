#!/bin/bash
# Developer regression: all quick checks clean on /repo, hand mutants killed, benign variants quiet, seeded mutants still caught.
cd /verif
fail=0
for p in C01 C02 C03 C04 C05 C06 C07 C08 C09 C10 C11 C12 C13 C14 C15 C16 C17 C18 C19; do
  bin/nplint -prop $p -tier quick > /tmp/q_$p.log 2>&1 || { echo "CHECK FAILS ON UNCHANGED TREE: $p"; fail=1; }
done
tools/selftest.sh | grep -v "^KILLED" 
tools/benigntest.sh | grep -v "^QUIET"
export GOFLAGS=-mod=mod GOPROXY=off GOSUMDB=off GOTOOLCHAIN=local
wt=$(mktemp -d /tmp/seedreg.XXXX); rmdir $wt; git -C /repo worktree add --detach $wt HEAD >/dev/null 2>&1
mkdir -p $wt/.verif && cp known_findings.json $wt/.verif/
for d in seeded/*/; do
  id=$(basename $d); prop=${id%%-*}
  expect=$(python3 -c "import json;print('1' if json.load(open('$d/meta.json'))['checks_run'].get('$prop')=='VIOLATION' else '0')")
  ( cd $wt && git checkout -q -- . && git apply /verif/$d/patch.diff ) || { echo "SEED NOAPPLY $id"; continue; }
  bin/nplint -prop $prop -tier quick -repo $wt -verif $wt/.verif >/dev/null 2>&1; code=$?
  if [ "$expect" = "1" ] && [ $code -ne 1 ]; then echo "SEED REGRESSION: $id was caught before, now exit=$code"; fail=1; fi
  if [ "$expect" = "0" ] && [ $code -eq 1 ]; then echo "SEED NOW CAUGHT: $id (update meta)"; fi
done
git -C /repo worktree remove --force $wt >/dev/null 2>&1
echo "regress: fail=$fail"
