#!/usr/bin/env python3
"""mkmut.py PROP NAME FILE  (reads OLD and NEW separated by a line '=====' from stdin) -> /verif/mutants/PROP_NAME.patch
Creates the patch in the scratch worktree /tmp/scratch (a checkout of /repo HEAD)."""
import subprocess, sys
prop, name, path = sys.argv[1:4]
import os
OUT = os.environ.get("MUTDIR", "/verif/mutants")
old, new = sys.stdin.read().split('\n=====\n')
new = new.rstrip('\n') if not new.endswith('\n\n') else new
wt = '/tmp/scratch'
subprocess.check_call(['git', '-C', wt, 'checkout', '-q', '--', '.'])
s = open(f'{wt}/{path}').read()
if s.count(old) != 1:
    print(f'ERROR {prop}_{name}: old text occurs {s.count(old)} times'); sys.exit(1)
open(f'{wt}/{path}', 'w').write(s.replace(old, new))
d = subprocess.check_output(['git', '-C', wt, 'diff']).decode()
open(f'{OUT}/{prop}_{name}.patch', 'w').write(d)
subprocess.check_call(['git', '-C', wt, 'checkout', '-q', '--', '.'])
print('ok', prop, name)
