#!/usr/bin/env python3
"""Mutation sweep of the static checks (information only; never part of a registered check).

  mutsweep.py gen                      -> /tmp/msw/muts.jsonl (bin/mutgen over /repo HEAD)
  mutsweep.py check  [-j N] [--only op,op] [--files f1,f2]  -> phase A: build + nplint on every mutant
  mutsweep.py suite  [-j N]            -> phase B: run the repository's test suite (in a private network
                                          namespace) on the mutants that no check flagged
  mutsweep.py report                   -> summary + list of test-passing survivors

Each worker owns a scratch worktree under /tmp/msw/wK (removed by `mutsweep.py clean`)."""
import json, os, subprocess, sys, threading, queue, time, collections

ROOT = os.environ.get('MSW_ROOT', '/tmp/msw')
ENV = dict(os.environ, GOFLAGS='-mod=mod', GOPROXY='off', GOSUMDB='off', GOTOOLCHAIN='local')
lock = threading.Lock()

def sh(cmd, cwd=None, timeout=None):
    try:
        p = subprocess.run(cmd, cwd=cwd, env=ENV, stdout=subprocess.PIPE, stderr=subprocess.STDOUT, text=True, timeout=timeout)
        return p.returncode, p.stdout
    except subprocess.TimeoutExpired as e:
        return 124, (e.stdout or '') if isinstance(e.stdout, str) else 'timeout'

def worktree(k):
    wt = f'{ROOT}/w{k}'
    if not os.path.isdir(wt):
        sh(['git', '-C', '/repo', 'worktree', 'add', '--detach', wt, base_commit()])
        os.makedirs(f'{wt}/.verif', exist_ok=True)
    kf = json.load(open('/verif/known_findings.json'))
    # the sweep base predates fix 8f5b934 (F13): suppress that (then still open) finding so that it does not mask survivors
    if base_commit().startswith('c762059'):
        for prop in ('C06', 'C04'):
            kf['findings'].append({'property': prop, 'key': prop + '.R4:drain-observed-under-the-lock:(*connection).onProcess$1:closeCallback(false,false)', 'status': 'open', 'what': 'F13 (open at the sweep base commit)'})
    json.dump(kf, open(f'{wt}/.verif/known_findings.json', 'w'))
    sh(['git', 'checkout', '-q', '--', '.'], cwd=wt)
    return wt

def base_commit():
    p = f'{ROOT}/base_commit'
    if os.path.exists(p):
        return open(p).read().strip()
    return 'HEAD'

def apply(wt, m, orig):
    src = orig[m['file']]
    new = src[:m['start']] + m['repl'].encode() + src[m['end']:]
    open(f"{wt}/{m['file']}", 'wb').write(new)

def restore(wt, m, orig):
    open(f"{wt}/{m['file']}", 'wb').write(orig[m['file']])

def load_muts():
    return [json.loads(l) for l in open(f'{ROOT}/muts.jsonl')]

# Keys that fire on every mutant of the pinned (older) base commit because the checker learnt the rule after that
# commit's defect was found (F13, F15, F16): they do not count as kills of the mutant.
BASE_NOISE = ('C03.R3:donor-was-managed', 'C04.R4:hup-offers-input', 'C06.R4:hup-offers-input',
              'C06.R4:drain-observed-under-the-lock', 'C04.R4:drain-observed-under-the-lock',
              'C15.R5:failed-growth-closes-new-pollers', 'C13.R1:shutdown-published-before-sweep',
              'C17.R4:shard-index-never-negative')

def load_results(name):
    res = {}
    p = f'{ROOT}/{name}.jsonl'
    if os.path.exists(p):
        for l in open(p):
            r = json.loads(l)
            if name == 'check' and r.get('status') == 'killed' and not [k for k in r.get('keys', []) if not k.startswith(BASE_NOISE)]:
                r['status'] = 'survived'
            res[r['id']] = r
    return res

def run_pool(items, fn, j, outname):
    q = queue.Queue()
    for it in items:
        q.put(it)
    out = open(f'{ROOT}/{outname}.jsonl', 'a')
    done = [0]
    def work(k):
        wt = worktree(k)
        while True:
            try:
                it = q.get_nowait()
            except queue.Empty:
                return
            r = fn(wt, it)
            with lock:
                out.write(json.dumps(r) + '\n'); out.flush()
                done[0] += 1
                if done[0] % 50 == 0:
                    print(f'{outname}: {done[0]}/{len(items)}', flush=True)
    ts = [threading.Thread(target=work, args=(k,)) for k in range(j)]
    [t.start() for t in ts]; [t.join() for t in ts]

def main():
    os.makedirs(ROOT, exist_ok=True)
    cmd = sys.argv[1]
    j = 6
    if '-j' in sys.argv:
        j = int(sys.argv[sys.argv.index('-j') + 1])
    if cmd == 'gen':
        out = subprocess.run(['/verif/bin/mutgen', '/repo'], stdout=subprocess.PIPE, text=True).stdout
        open(f'{ROOT}/muts.jsonl', 'w').write(out)
        open(f'{ROOT}/base_commit', 'w').write(subprocess.run(['git', '-C', '/repo', 'rev-parse', 'HEAD'], stdout=subprocess.PIPE, text=True).stdout.strip())
        print('generated', out.count('\n'))
        return
    if cmd == 'clean':
        for d in os.listdir(ROOT):
            if d.startswith('w'):
                sh(['git', '-C', '/repo', 'worktree', 'remove', '--force', f'{ROOT}/{d}'])
        return
    muts = load_muts()
    files = sorted(set(m['file'] for m in muts))
    orig = {f: subprocess.run(['git', '-C', '/repo', 'show', f'{base_commit()}:{f}'], stdout=subprocess.PIPE).stdout for f in files}
    if cmd == 'check':
        done = load_results('check')
        todo = [m for m in muts if m['id'] not in done]
        if '--redo-survivors' in sys.argv:
            todo = [m for m in muts if done.get(m['id'], {}).get('status') in ('survived', 'broken')]
        if '--ids' in sys.argv:
            ids = set(json.load(open(sys.argv[sys.argv.index('--ids') + 1])))
            todo = [m for m in muts if m['id'] in ids]
        if '--only' in sys.argv:
            ops = sys.argv[sys.argv.index('--only') + 1].split(',')
            todo = [m for m in todo if m['op'] in ops]
        if '--files' in sys.argv:
            fs = sys.argv[sys.argv.index('--files') + 1].split(',')
            todo = [m for m in todo if m['file'] in fs]
        def fn(wt, m):
            apply(wt, m, orig)
            r = {'id': m['id']}
            code, out = sh(['go', 'build', './...'], cwd=wt, timeout=120)
            if code != 0:
                r['status'] = 'nobuild'
            else:
                code, out = sh([os.environ.get('NPLINT', '/verif/bin/nplint'), '-prop', 'all', '-tier', 'quick', '-repo', wt, '-verif', f'{wt}/.verif'], timeout=300)
                props = sorted(set(l.split('property=')[1].split()[0] for l in out.splitlines() if l.startswith('VIOLATION property=')))
                broken = sorted(set(l.split('property=')[1].split()[0] for l in out.splitlines() if l.startswith('BROKEN: property=')))
                keys = [l.split()[1] for l in out.splitlines() if l.startswith('VIOLATED ') and not l.startswith('VIOLATED C')][:14]
                r.update(status='killed' if props else ('broken' if broken else 'survived'), props=props, broken=broken, keys=keys)
            restore(wt, m, orig)
            return r
        run_pool(todo, fn, j, 'check')
        return
    if cmd == 'suite':
        chk = load_results('check')
        done = load_results('suite')
        todo = [m for m in muts if chk.get(m['id'], {}).get('status') in ('survived', 'broken') and m['id'] not in done]
        if '--sample' in sys.argv:
            import random
            random.Random(20260923).shuffle(todo)
            todo = todo[:int(sys.argv[sys.argv.index('--sample') + 1])]
        def fn(wt, m):
            apply(wt, m, orig)
            t0 = time.time()
            code, out = sh(['unshare', '-n', 'bash', '-c', 'ip link set lo up; go vet ./... >/dev/null 2>&1 || exit 3; go test -vet=off -count=1 -timeout 240s ./... 2>&1 | tail -30'], cwd=wt, timeout=400)
            failed = [l for l in out.splitlines() if l.startswith('--- FAIL') or l.startswith('FAIL') or 'panic:' in l]
            st = 'vetfail' if code == 3 else ('pass' if (code == 0 and not failed) else 'fail')
            restore(wt, m, orig)
            return {'id': m['id'], 'suite': st, 'secs': round(time.time() - t0), 'fail': failed[:3]}
        run_pool(todo, fn, j, 'suite')
        return
    if cmd == 'report':
        chk, su = load_results('check'), load_results('suite')
        c = collections.Counter(r['status'] for r in chk.values())
        print('phase A:', dict(c), 'of', len(muts))
        s = collections.Counter(r['suite'] for r in su.values())
        print('phase B (suite on survivors):', dict(s))
        byid = {m['id']: m for m in muts}
        surv = [byid[i] for i, r in su.items() if r['suite'] == 'pass']
        surv.sort(key=lambda m: (m['file'], m['line']))
        src = {f: orig[f].decode() for f in files}
        out = []
        for m in surv:
            old = src[m['file']][m['start']:m['end']].replace('\n', ' / ')
            new = m['repl'].replace('\n', ' / ')
            out.append(f"{m['id']:5d} {chk[m['id']]['status']:8s} {m['file']}:{m['line']} {m['func']} [{m['op']}] `{old}` -> `{new}`")
        open(f'{ROOT}/survivors.txt', 'w').write('\n'.join(out) + '\n')
        print('test-passing mutants not flagged by any check:', len(surv), '->', f'{ROOT}/survivors.txt')
        return

if __name__ == '__main__':
    main()
